#!/bin/bash
# usage: seed_run.sh <id> <PROP> [quick|thorough] — applies /verif/seeded/<id>/patch.diff to a scratch worktree of
# /repo HEAD, runs the property's check against it (VERIF_REPO/VERIF_WORK), removes the scratch tree.
set -u
id=$1; prop=$2; tier=${3:-quick}
W=/tmp/seedrun/$id; rm -rf "$W" /tmp/seedrun/work-$id; mkdir -p /tmp/seedrun
git -C /repo worktree add --detach "$W" HEAD >/dev/null 2>&1 || exit 2
git -C "$W" apply /verif/seeded/$id/patch.diff 2>/dev/null || git -C "$W" apply -3 /verif/seeded/$id/patch.diff || { git -C /repo worktree remove --force "$W"; exit 2; }
( cd /verif && VERIF_REPO="$W" VERIF_WORK=/tmp/seedrun/work-$id VERIF_REPLAY_DIR=/tmp/seedrun/replays-$id VERIF_EVIDENCE_DIR=/tmp/seedrun/evidence-$id timeout 3000 ./check "$prop" "$tier" ) 2>&1 | cut -c1-400 | grep -E "^VIOLATION|^KNOWN|class=|exit [0-9]|ERROR|INCONCL|NON-REPRO"
git -C /repo worktree remove --force "$W"; rm -rf /tmp/seedrun/work-$id

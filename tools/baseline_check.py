#!/usr/bin/env python3
"""Runs exactly the pinned stable tests (BASELINE.json stable_pass) of the repository with the
verif guard OFF (default toolchain, no tags) and reports any that do not pass.
usage: baseline_check.py [repo_dir] [pkg_substring ...]"""
import json, subprocess, sys, collections, os, concurrent.futures
repo = sys.argv[1] if len(sys.argv) > 1 else "/repo"
filt = sys.argv[2:]
d = json.load(open("/root/.vp/BASELINE.json"))
by = collections.defaultdict(list)
for t in d["stable_pass"]:
    pkg, name = t.split("::")
    by[pkg].append(name)
env = dict(os.environ, GOFLAGS="-mod=mod", GOPROXY="off", GOSUMDB="off")
def run(pkg):
    names = by[pkg]
    tops = sorted({n.split("/")[0] for n in names})
    rx = "^(" + "|".join(tops) + ")$"
    rel = pkg.replace("github.com/frankkopp/FrankyGo", ".")
    p = subprocess.run(["go", "test", "-json", "-vet=off", "-count=1", "-timeout", "25m", "-run", rx, rel],
                       cwd=repo, env=env, capture_output=True, text=True)
    passed = set()
    for line in p.stdout.splitlines():
        try: ev = json.loads(line)
        except Exception: continue
        if ev.get("Action") == "pass" and ev.get("Test"): passed.add(ev["Test"])
    missing = [n for n in names if n not in passed]
    return pkg, len(names), missing, p.stdout[-2000:] if missing else ""
pkgs = [p for p in by if not filt or any(f in p for f in filt)]
bad = 0
with concurrent.futures.ThreadPoolExecutor(max_workers=8) as ex:
    for pkg, n, missing, tail in ex.map(run, pkgs):
        print(("OK  " if not missing else "FAIL"), pkg, n, "tests", ("missing: %s" % missing if missing else ""))
        if missing: bad += len(missing)
print("stable tests not passing:", bad)
sys.exit(1 if bad else 0)

#!/bin/bash
# usage: seed_confirm.sh <id> <agent-worktree> <demo-go-test-pkg-dir> <run-regex> [race]
# Confirms a seeded change independently in a fresh scratch worktree of /repo:
#   build ok, pinned stable tests ok, demo FAILS with the change, demo PASSES without it.
# On success stores /verif/seeded/<id>/{patch.diff,demo files,confirm.log}.
set -u
id=$1; src=$2; pkg=$3; rx=$4; race=${5:-}
export GOFLAGS=-mod=mod GOPROXY=off GOSUMDB=off
W=/tmp/seedconf/$id
rm -rf "$W"; mkdir -p /tmp/seedconf
git -C /repo worktree add --detach "$W" HEAD >/dev/null 2>&1 || { echo "worktree failed"; exit 2; }
out=/verif/seeded/$id; mkdir -p "$out"
cp "$src/SEEDED/patch.diff" "$out/patch.diff"
for f in "$src"/SEEDED/*; do case "$f" in *patch.diff) ;; *) cp -r "$f" "$out/";; esac; done
log="$out/confirm.log"; : > "$log"
demo=$(ls "$src/$pkg"/zz_seeded_demo*_test.go 2>/dev/null | head -5)
[ -z "$demo" ] && { echo "no demo test in $src/$pkg" | tee -a "$log"; }
for d in $demo; do cp "$d" "$W/$pkg/"; cp "$d" "$out/"; done
RACE=""; [ "$race" = race ] && RACE="-race"
echo "== demo WITHOUT change" | tee -a "$log"
( cd "$W" && timeout 600 go test $RACE -vet=off -count=1 -run "$rx" "./$pkg/" ) >> "$log" 2>&1; r0=$?
echo "exit $r0" | tee -a "$log"
echo "== apply patch" | tee -a "$log"
git -C "$W" apply "$out/patch.diff" >> "$log" 2>&1 || git -C "$W" apply -3 "$out/patch.diff" >> "$log" 2>&1 || { echo "patch does not apply" | tee -a "$log"; git -C /repo worktree remove --force "$W"; exit 1; }
( cd "$W" && go build ./... ) >> "$log" 2>&1; rb=$?
echo "build exit $rb" | tee -a "$log"
echo "== demo WITH change" | tee -a "$log"
( cd "$W" && timeout 600 go test $RACE -vet=off -count=1 -run "$rx" "./$pkg/" ) >> "$log" 2>&1; r1=$?
echo "exit $r1" | tee -a "$log"
echo "== pinned stable tests of touched packages" | tee -a "$log"
for d in $demo; do rm -f "$W/$pkg/$(basename $d)"; done
pk=$(git -C "$W" diff --name-only | xargs -n1 dirname | sort -u | sed 's#internal/##' | tr '\n' ' ')
python3 /verif/tools/baseline_check.py "$W" $pk search uci >> "$log" 2>&1; rt=$?
tail -1 "$log"
git -C /repo worktree remove --force "$W"
if [ $r0 -eq 0 ] && [ $rb -eq 0 ] && [ $r1 -ne 0 ] && [ $rt -eq 0 ]; then echo "CONFIRMED $id"; exit 0; else echo "NOT CONFIRMED $id (without=$r0 build=$rb with=$r1 tests=$rt)"; exit 1; fi

package uci

// C12 audit finding 9: with a Hash size from the announced range (spin 0 ..
// 65000 MB) every go is preceded by a sweep over the complete table
// (search.go run(): s.tt.AgeEntries(), tt.go AgeEntries() touches all
// entries, the time grows with the table size). The sweep runs
//   - after the timer has been started (the time limit expires during it),
//   - inside StartSearch() (the UCI loop is blocked: a stop or isready sent
//     right after the go is not even read until the sweep is done).
// So "go movetime 50" is answered several 100 ms late and "go infinite"+"stop"
// is not prompt.
//
// Needs ZZHASH MB of RAM (default 8192, ZZHASH=2048 already fails; the announced maximum is 65000).
//
// run: go test ./internal/uci/ -run TestZZAudit9 -count=1 -v

import (
	"os"
	"testing"
	"time"
)

func TestZZAudit9_BigHashTimeLimitAndStop(t *testing.T) {
	hash := "8192"
	if v := os.Getenv("ZZHASH"); v != "" {
		hash = v
	}
	s := zzNewSession(t)
	defer s.quit()
	defer func() {
		s.send("setoption name Hash value 256")
		s.sync()
	}()
	s.send("setoption name Use_Book value false")
	s.send("setoption name Hash value " + hash)
	s.sync()
	s.send("position startpos")
	// one ordinary search so that the table is not empty
	s.send("go movetime 1000")
	if s.waitFor("bestmove", 20*time.Second) == "" {
		t.Fatalf("no bestmove")
	}
	for i := 0; i < 3; i++ {
		st := time.Now()
		s.send("go movetime 50")
		if s.waitFor("bestmove", 60*time.Second) == "" {
			t.Fatalf("no bestmove")
		}
		if d := time.Since(st); d > 100*time.Millisecond {
			t.Errorf("Hash %s: 'go movetime 50' answered after %v", hash, d)
		}
	}
	st := time.Now()
	s.send("go infinite")
	s.send("stop")
	if s.waitFor("bestmove", 60*time.Second) == "" {
		t.Fatalf("no bestmove")
	}
	if d := time.Since(st); d > 100*time.Millisecond {
		t.Errorf("Hash %s: 'go infinite' + 'stop' answered after %v", hash, d)
	}
	st = time.Now()
	s.send("go infinite")
	s.send("isready")
	if s.waitFor("readyok", 60*time.Second) == "" {
		t.Fatalf("no readyok")
	}
	if d := time.Since(st); d > 100*time.Millisecond {
		t.Errorf("Hash %s: 'go infinite' + 'isready' answered after %v", hash, d)
	}
}

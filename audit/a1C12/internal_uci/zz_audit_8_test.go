package uci

// C12 audit finding 8 (content of the one bestmove line, and go commands
// without any answer). See FINDINGS.md for the classification.
//
// run: go test ./internal/uci/ -run TestZZAudit8 -count=1 -v

import (
	"regexp"
	"testing"
	"time"
)

var zzUciMove = regexp.MustCompile(`^bestmove ([a-h][1-8][a-h][1-8][qrbn]?|0000|\(none\))( ponder [a-h][1-8][a-h][1-8][qrbn]?)?$`)

// the answer is not a move in UCI notation
func TestZZAudit8a_BestmoveNotation(t *testing.T) {
	s := zzNewSession(t)
	defer s.quit()
	s.send("setoption name Use_Book value false")
	for _, c := range []struct{ pos, what string }{
		{"position fen 8/4P3/8/8/8/8/k7/2K5 w - - 0 1", "promotion"},
		{"position startpos moves g1f3 g8f6 f3g1 f6g8 g1f3 g8f6 f3g1 f6g8", "position occurred 3 times, 20 legal moves, game goes on unless a player claims"},
		{"position fen 6k1/8/6K1/8/8/8/8/Q7 w - - 100 80", "half move clock 100, mate in 1 available, game goes on unless a player claims"},
	} {
		s.send(c.pos)
		s.send("go depth 3")
		bm := s.waitFor("bestmove", 10*time.Second)
		if !zzUciMove.MatchString(bm) {
			t.Errorf("%s (%s): answer %q is not a UCI move", c.pos, c.what, bm)
		}
	}
}

// go commands which get no bestmove at all
func TestZZAudit8b_GoWithoutAnswer(t *testing.T) {
	s := zzNewSession(t)
	defer s.quit()
	s.send("setoption name Use_Book value false")
	s.send("position startpos")
	for _, g := range []string{
		"go", // "go" without parameters
		"go wtime 0 btime 5000 winc 1000 binc 1000", // flag about to fall, increment still to come
		"go movetime 0",
	} {
		s.send(g)
		bm := s.waitFor("bestmove", 2*time.Second)
		if bm == "" {
			t.Errorf("%q: no bestmove", g)
		}
		s.send("stop")
		s.sync()
	}
}

package uci

// C12 audit finding 3: infinite and ponder searches send their bestmove
// BEFORE stop / ponderhit when another limit is given in the same go command.
//
// search.go run(): the wait "until stop" is only entered
//   if (Ponder || Infinite) && !s.stopFlag.Load()
// but the stop flag is also the way the node limit (stopConditions():
// s.stopFlag.Store(true) when Nodes is reached) and the timer (startTimer,
// started for "infinite" + time control because only Ponder is excluded)
// end the search. So the engine itself sets the flag and then skips the wait.
//
// run: go test ./internal/uci/ -run TestZZAudit3 -count=1 -v

import (
	"testing"
	"time"
)

func TestZZAudit3_PonderAndInfiniteAnsweredBeforeStop(t *testing.T) {
	s := zzNewSession(t)
	defer s.quit()
	s.send("setoption name Use_Book value false")
	for _, g := range []string{
		"go ponder nodes 500",                         // pondering with a node budget
		"go ponder wtime 60000 btime 60000 nodes 500", // the same with clock
		"go infinite nodes 500",
		"go infinite movetime 100",
		"go infinite wtime 1000 btime 1000",
	} {
		s.send("position startpos moves e2e4 e7e5")
		s.send(g)
		bm := s.waitFor("bestmove", 1500*time.Millisecond)
		if bm != "" {
			t.Errorf("%q: answered %q although neither stop nor ponderhit has been sent", g, bm)
		}
		s.send("stop")
		s.sync()
		time.Sleep(20 * time.Millisecond)
	}
}

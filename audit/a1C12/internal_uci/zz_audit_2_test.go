package uci

// C12 audit finding 2: "go mate <n>" is accepted as a search limit but the
// limit is never used - the search neither stops when the mate distance has
// been searched nor at any other point (it runs on to depth 128).
//
// uci.go readSearchLimits() accepts "mate" and counts it as an effective
// limit (searchLimits.Mate > 0), search.go only logs it (setupSearchLimits)
// and iterativeDeepening()/stopConditions() never look at it.
//
// run: go test ./internal/uci/ -run TestZZAudit2 -count=1 -v

import (
	"strings"
	"testing"
	"time"
)

func TestZZAudit2_GoMateNeverAnswered(t *testing.T) {
	s := zzNewSession(t)
	defer s.quit()
	s.send("setoption name Use_Book value false")
	s.send("position startpos")
	s.sync()
	// there is no mate in 1 in the start position: a mate-in-1 search is
	// complete after 2 plies (a few hundred nodes)
	s.send("go mate 1")
	bm := s.waitFor("bestmove", 20*time.Second)
	depth := ""
	s.mu.Lock()
	for _, l := range s.all {
		if strings.HasPrefix(l.text, "info depth") && strings.Contains(l.text, " pv ") {
			depth = strings.Fields(l.text)[2]
		}
	}
	s.mu.Unlock()
	if bm == "" {
		t.Errorf("'go mate 1' not answered within 20s - limit ignored, engine is at iteration depth %s and still searching", depth)
	}
}

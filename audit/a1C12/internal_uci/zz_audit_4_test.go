package uci

// C12 audit finding 4: the position command refuses games of more than 512
// plies; the engine silently (info string only) stays on the PREVIOUS position
// and the next go is answered with a move for that old position.
//
// uci.go positionCommand(): "if len(tokens)-i > MaxMoves { ... return }"
// (types.MaxMoves = 512). Games of more than 256 moves are legal chess (no
// 3-fold, no 50-move claim needed here - the test game never repeats a
// position 3 times and never gets the half move clock to 100).
//
// run: go test ./internal/uci/ -run TestZZAudit4 -count=1 -v

import (
	"math/rand"
	"strings"
	"testing"
	"time"

	"github.com/frankkopp/FrankyGo/internal/movegen"
	"github.com/frankkopp/FrankyGo/internal/position"
	. "github.com/frankkopp/FrankyGo/internal/types"
)

// zzLongGame plays a legal game of n plies from the start position in which
// no position occurs 3 times, the half move clock stays below 100 and no side
// gets mated or stalemated.
func zzLongGame(n int, seed int64) ([]string, *position.Position) {
	for ; ; seed++ {
		r := rand.New(rand.NewSource(seed))
		mg := movegen.NewMoveGen()
		mg2 := movegen.NewMoveGen()
		p := position.NewPosition()
		var moves []string
		ok := true
		for len(moves) < n && ok {
			lm := mg.GenerateLegalMoves(p, movegen.GenAll).Clone()
			// candidates
			var quiet, reset []Move
			for _, m := range *lm {
				isReset := p.GetPiece(m.From()).TypeOf() == Pawn || p.IsCapturingMove(m)
				p.DoMove(m)
				good := !p.CheckRepetitions(1) && mg2.GenerateLegalMoves(p, movegen.GenAll).Len() > 0 && !p.HasInsufficientMaterial()
				p.UndoMove()
				if !good {
					continue
				}
				if isReset {
					reset = append(reset, m)
				} else {
					quiet = append(quiet, m)
				}
			}
			var m Move
			switch {
			case p.HalfMoveClock() >= 80 && len(reset) > 0:
				m = reset[r.Intn(len(reset))]
			case len(quiet) > 0 && p.HalfMoveClock() < 98:
				m = quiet[r.Intn(len(quiet))]
			case len(reset) > 0:
				m = reset[r.Intn(len(reset))]
			default:
				ok = false
				continue
			}
			moves = append(moves, m.StringUci())
			p.DoMove(m)
			if p.HalfMoveClock() >= 100 {
				ok = false
			}
		}
		if ok {
			return moves, p
		}
	}
}

func TestZZAudit4_LongGamePositionLost(t *testing.T) {
	moves, want := zzLongGame(513, 1)
	s := zzNewSession(t)
	defer s.quit()
	s.send("setoption name Use_Book value false")
	s.send("position startpos moves " + strings.Join(moves[:511], " "))
	s.sync()
	prev := s.u.myPosition.StringFen()
	// two plies later (engine and opponent have moved)
	s.send("position startpos moves " + strings.Join(moves, " "))
	s.sync()
	got := s.u.myPosition.StringFen()
	if got != want.StringFen() {
		t.Errorf("position after a legal game of %d plies:\n got  %s\n want %s\n (previous position was %s)", len(moves), got, want.StringFen(), prev)
	}
	// and the engine plays on - from the wrong position
	s.send("go depth 2")
	bm := s.waitFor("bestmove", 10*time.Second)
	mg := movegen.NewMoveGen()
	legal := false
	for _, m := range *mg.GenerateLegalMoves(want, movegen.GenAll) {
		if len(strings.Fields(bm)) > 1 && m.StringUci() == strings.Fields(bm)[1] {
			legal = true
		}
	}
	t.Logf("answer to go: %q (legal in the real position: %v)", bm, legal)
}

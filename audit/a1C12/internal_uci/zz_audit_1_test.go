package uci

// C12 audit finding 1: a timer of a finished search stops the NEXT search.
//
// search.go startTimer(): the timer goroutine leaves its polling loop when the
// time limit is reached, then checks "stopFlag || searchCounter != mySearch",
// then writes a log line (s.log.Debugf "Timer stops search after wall time")
// and only then does s.stopFlag.Store(true). Check and store are not atomic.
// If the timer goroutine is delayed between the check and the store (here: a
// slow log sink - the engine logs synchronously to stdout/file) while
//   - the GUI stops the search at the same moment (stop -> bestmove) and
//   - immediately sends the next "go infinite",
// the late Store(true) hits the new search: the infinite search sends its
// bestmove although no stop was ever sent for it.
//
// run: go test ./internal/uci/ -run TestZZAudit1 -count=1 -v

import (
	"strings"
	"sync"
	"testing"
	"time"

	"github.com/op/go-logging"

	"github.com/frankkopp/FrankyGo/internal/config"
	myLogging "github.com/frankkopp/FrankyGo/internal/logging"
)

type zzSlowLog struct {
	once    sync.Once
	atLimit chan struct{}
	release chan struct{}
}

func (b *zzSlowLog) Log(level logging.Level, calldepth int, rec *logging.Record) error {
	if strings.Contains(rec.Message(), "Timer stops search after wall time") {
		b.once.Do(func() {
			// the log sink is slow for this one line
			close(b.atLimit)
			select {
			case <-b.release:
			case <-time.After(5 * time.Second):
			}
		})
	}
	return nil
}

func TestZZAudit1_ObsoleteTimerStopsNextSearch(t *testing.T) {
	s := zzNewSession(t)
	defer s.quit()

	slow := &zzSlowLog{atLimit: make(chan struct{}), release: make(chan struct{})}
	lb := logging.AddModuleLevel(slow)
	lb.SetLevel(logging.DEBUG, "")
	myLogging.GetLog().SetBackend(lb)
	defer func() { // restore the standard log backends
		old := config.LogLevel
		config.LogLevel = old - 1
		myLogging.GetLog()
		config.LogLevel = old
		myLogging.GetLog()
	}()

	s.send("setoption name Use_Book value false")
	s.send("position startpos")
	s.send("go movetime 200")

	select {
	case <-slow.atLimit:
	case <-time.After(5 * time.Second):
		t.Fatalf("timer never reached its limit")
	}
	// the timer has decided to stop search 1 but has not set the flag yet.
	// the GUI stops search 1 at the same moment ...
	s.send("stop")
	if bm := s.waitFor("bestmove", 5*time.Second); bm == "" {
		t.Fatalf("no bestmove for search 1")
	}
	// ... and starts the next search right away
	s.send("go infinite")
	if !s.sync() {
		t.Fatalf("no readyok")
	}
	before := s.count("bestmove")
	// now the log write of the old timer returns
	close(slow.release)

	// no stop has been sent for the infinite search: there must be no bestmove
	bm := s.waitFor("bestmove", 2*time.Second)
	if bm != "" {
		t.Errorf("infinite search answered %q without stop (bestmove lines before: %d) - stopped by the timer of the previous search", bm, before)
	}
}

package uci

// C12 audit finding 7: a setoption sent right after a bestmove is refused
// "while searching" although the search has delivered its result.
//
// search.go run() sends the result (sendResult) and only afterwards releases
// the isRunning semaphore (deferred). StartSearch() knows about this window
// (hasResult), but ClearHash()/ResizeCache() only look at IsSearching(): a GUI
// that reacts to the bestmove before the engine's search goroutine has
// returned from its write gets "Can't resize hash while searching." - the
// handler (ucioption.go cacheSize) has already written Settings.Search.TTSize,
// so the configuration print-out shows the new size while the table keeps the
// old one; "Clear Hash" is dropped completely.
// The schedule is forced by delaying the return of the engine's write call
// after the line has been delivered (the engine thread is descheduled there).
//
// run: go test ./internal/uci/ -run TestZZAudit7 -count=1 -v

import (
	"strings"
	"testing"
	"time"
)

func TestZZAudit7_SetoptionRightAfterBestmove(t *testing.T) {
	s := zzNewSession(t)
	defer s.quit()
	s.afterWrite = func(line string) {
		if strings.HasPrefix(line, "bestmove") {
			time.Sleep(100 * time.Millisecond)
		}
	}
	s.send("setoption name Use_Book value false")
	s.send("position startpos")
	s.send("go depth 3")
	if s.waitFor("bestmove", 10*time.Second) == "" {
		t.Fatalf("no bestmove")
	}
	// the engine is waiting for commands now (it has answered the go)
	s.mu.Lock()
	start := len(s.all)
	s.mu.Unlock()
	s.send("setoption name Hash value 32")
	s.send("setoption name Clear Hash")
	cfg := s.printConfig()
	s.mu.Lock()
	var resized, cleared bool
	var refused []string
	for _, l := range s.all[start:] {
		if strings.Contains(l.text, "Hash resized") {
			resized = true
		}
		if strings.Contains(l.text, "Hash cleared") {
			cleared = true
		}
		if strings.Contains(l.text, "while searching") {
			refused = append(refused, l.text)
		}
	}
	s.mu.Unlock()
	s.send("setoption name Hash value 256")
	if !resized || !cleared {
		t.Errorf("after bestmove: resized=%v cleared=%v, print-out TTSize=%s, engine said: %v", resized, cleared, cfg["TTSize"], refused)
	}
}

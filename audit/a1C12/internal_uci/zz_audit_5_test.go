package uci

// C12 audit finding 5: commands with trailing or leading white space are not
// answered / not executed.
//
// uci.go handleReceivedCommand(): tokens := regexWhiteSpace.Split(cmd, -1)
// produces an empty first token for leading and an empty last token for
// trailing white space ("strings.TrimSpace(tokens[0])" discards its result).
//  - leading:  tokens[0]=="" -> "Unknown command" (isready gets no readyok, go no bestmove)
//  - trailing: readSearchLimits() hits the empty token in its default branch
//    ("Invalid subcommand") and rejects the whole go; positionCommand() treats
//    the empty token as invalid move / malformed and keeps the OLD position.
// The UCI specification allows arbitrary white space between tokens and asks
// engines to ignore unknown tokens.
//
// run: go test ./internal/uci/ -run TestZZAudit5 -count=1 -v

import (
	"testing"
	"time"
)

func TestZZAudit5_WhiteSpace(t *testing.T) {
	s := zzNewSession(t)
	defer s.quit()
	s.send("setoption name Use_Book value false")
	s.send("position startpos")
	s.sync()

	s.send("position startpos moves e2e4 ")
	s.sync()
	want := "rnbqkbnr/pppppppp/8/8/4P3/8/PPPP1PPP/RNBQKBNR b KQkq e3 0 1"
	if got := s.u.myPosition.StringFen(); got != want {
		t.Errorf("'position startpos moves e2e4 ' (trailing blank): position is %s, want %s", got, want)
	}
	s.send("position fen " + want + " ")
	s.sync()
	if got := s.u.myPosition.StringFen(); got != want {
		t.Errorf("'position fen <fen> ' (trailing blank): position is %s, want %s", got, want)
	}
	s.send("go depth 2 ")
	if bm := s.waitFor("bestmove", 3*time.Second); bm == "" {
		t.Errorf("'go depth 2 ' (trailing blank): no bestmove")
	}
	s.send("go infinite ")
	time.Sleep(50 * time.Millisecond)
	s.send("stop")
	if bm := s.waitFor("bestmove", 3*time.Second); bm == "" {
		t.Errorf("'go infinite ' (trailing blank) + stop: no bestmove")
	}
	s.send(" isready")
	if r := s.waitFor("readyok", 3*time.Second); r == "" {
		t.Errorf("' isready' (leading blank): no readyok")
	}
	s.send("\tgo depth 2")
	if bm := s.waitFor("bestmove", 3*time.Second); bm == "" {
		t.Errorf("'\\tgo depth 2' (leading tab): no bestmove")
	}
}

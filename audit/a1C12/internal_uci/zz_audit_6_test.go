package uci

// C12 audit finding 6: setoption does not find an option when its name is
// written in another case than in the engine's table - the UCI specification
// says names (and values) of options are not case sensitive. The named option
// is not changed.
//
// uci.go setOptionCommand(): "o, found := uciOptions[name]" - exact map lookup.
//
// run: go test ./internal/uci/ -run TestZZAudit6 -count=1 -v

import (
	"testing"
)

func TestZZAudit6_OptionNameCase(t *testing.T) {
	s := zzNewSession(t)
	defer s.quit()
	before := s.printConfig()
	if before["UsePVS"] != "true" || before["TTSize"] == "" {
		t.Fatalf("unexpected start config UsePVS=%q TTSize=%q", before["UsePVS"], before["TTSize"])
	}
	defer func() {
		s.send("setoption name Use_PVS value true")
		s.send("setoption name Hash value " + before["TTSize"])
		s.sync()
	}()
	s.send("setoption name use_pvs value false")
	s.send("setoption name hash value 32")
	after := s.printConfig()
	if after["UsePVS"] != "false" {
		t.Errorf("setoption name use_pvs value false: print-out still shows UsePVS=%s", after["UsePVS"])
	}
	if after["TTSize"] != "32" {
		t.Errorf("setoption name hash value 32: print-out still shows TTSize=%s", after["TTSize"])
	}
}

package uci

// Audit harness (C12): drives a UciHandler through its real Loop() over pipes,
// exactly as a GUI would, and records every output line with a time stamp.
// Shared by the zz_audit_<n>_test.go files of this package.

import (
	"bufio"
	"fmt"
	"io"
	"strings"
	"sync"
	"testing"
	"time"
)

type zzLine struct {
	text string
	at   time.Time
}

type zzSession struct {
	t     *testing.T
	u     *UciHandler
	in    *io.PipeWriter
	mu    sync.Mutex
	all   []zzLine
	ch    chan zzLine
	ended chan struct{}
	buf   []byte
	// afterWrite is called after a line has been delivered to the GUI side but
	// before the engine's write call returns (engine thread descheduled there)
	afterWrite func(line string)
}

func (s *zzSession) Write(p []byte) (int, error) {
	s.buf = append(s.buf, p...)
	for {
		i := strings.IndexByte(string(s.buf), '\n')
		if i < 0 {
			break
		}
		l := zzLine{text: string(s.buf[:i]), at: time.Now()}
		s.buf = s.buf[i+1:]
		s.mu.Lock()
		s.all = append(s.all, l)
		s.mu.Unlock()
		s.ch <- l
		if s.afterWrite != nil {
			s.afterWrite(l.text)
		}
	}
	return len(p), nil
}

func zzNewSession(t *testing.T) *zzSession {
	s := &zzSession{t: t, ch: make(chan zzLine, 1_000_000), ended: make(chan struct{})}
	s.u = NewUciHandler()
	pr, pw := io.Pipe()
	s.in = pw
	s.u.InIo = bufio.NewScanner(pr)
	s.u.OutIo = bufio.NewWriter(s)
	go func() {
		defer close(s.ended)
		s.u.Loop()
	}()
	return s
}

// send writes one command line to the engine
func (s *zzSession) send(cmd string) {
	_, _ = fmt.Fprintf(s.in, "%s\n", cmd)
}

// waitFor returns the first line with the given prefix arriving within the
// timeout ("" if none). Other lines are skipped.
func (s *zzSession) waitFor(prefix string, timeout time.Duration) string {
	deadline := time.After(timeout)
	for {
		select {
		case l := <-s.ch:
			if strings.HasPrefix(l.text, prefix) {
				return l.text
			}
		case <-deadline:
			return ""
		}
	}
}

// sync sends isready and waits for readyok: all commands before have been processed
func (s *zzSession) sync() bool {
	s.send("isready")
	return s.waitFor("readyok", 20*time.Second) != ""
}

// count returns how many lines with the prefix have been received so far
func (s *zzSession) count(prefix string) int {
	s.mu.Lock()
	defer s.mu.Unlock()
	n := 0
	for _, l := range s.all {
		if strings.HasPrefix(l.text, prefix) {
			n++
		}
	}
	return n
}

func (s *zzSession) quit() {
	s.send("stop")
	s.send("quit")
	select {
	case <-s.ended:
	case <-time.After(10 * time.Second):
	}
}

// config print-out of the engine as a map field->value
func (s *zzSession) printConfig() map[string]string {
	s.mu.Lock()
	start := len(s.all)
	s.mu.Unlock()
	s.send("setoption name Print Config")
	s.sync()
	s.mu.Lock()
	defer s.mu.Unlock()
	m := map[string]string{}
	for _, l := range s.all[start:] {
		if !strings.HasPrefix(l.text, "info string") || !strings.Contains(l.text, "=") {
			continue
		}
		f := strings.Fields(strings.TrimPrefix(l.text, "info string"))
		// "<n>: <name> <type> = <value>" (for n<10 "<n> : ...")
		for i := range f {
			if f[i] == "=" && i >= 2 {
				m[f[i-2]] = strings.Join(f[i+1:], " ")
				break
			}
		}
	}
	return m
}

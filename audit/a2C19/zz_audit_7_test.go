package openingbook

// Audit C19 #7: one long game in the source file kills the whole process.
// A game of more than 641 plies (321 moves) makes the per-line goroutine
// panic with "index out of range [641] with length 641"; the goroutine has no
// recover, so the engine dies while loading its book (isready / first go).
// Nothing of the game's legal prefix - nor of any other game - is offered.
// Such games are legal chess (no automatic rule ends them: the generated game
// below never repeats a position three times and never reaches 50 moves
// without a pawn move or capture; the second variant is the plain knight
// shuffle) and all three formats are affected.
//
// Root cause: position.go:112/144 the undo history of a Position is a fixed
// array of MaxMoves+MaxDepth+1 = 641 entries and DoMove (221) writes
// history[historyCounter] unchecked; openingbook.go processSimpleLine /
// processSanLine replay a whole game on ONE position object (337 / 528) and
// never look at the length of the line (358 / 548).
//
// The tests run the build in a child process so that the crash is reported as
// an ordinary test failure.

import (
	"math/rand"
	"os"
	"os/exec"
	"strings"
	"testing"

	"github.com/frankkopp/FrankyGo/internal/movegen"
	"github.com/frankkopp/FrankyGo/internal/position"
	. "github.com/frankkopp/FrankyGo/internal/types"
)

// auditLongRandomGame generates a legal game of exactly plies plies in which no
// position occurs more than twice and the half move clock never exceeds 90:
// random quiet piece moves, and a pawn move (or capture) whenever the clock
// reaches 80. The generator itself rebuilds its position from FEN every 300
// plies to stay clear of the history limit it is about to demonstrate.
func auditLongRandomGame(t *testing.T, plies int) []string {
	r := rand.New(rand.NewSource(20201))
	mg := movegen.NewMoveGen()
	p := position.NewPosition()
	seen := map[position.Key]int{p.ZobristKey(): 1}
	var game []string
	for len(game) < plies {
		if len(game)%300 == 299 {
			p = position.NewPosition(p.StringFen())
		}
		ml := mg.GenerateLegalMoves(p, movegen.GenAll).Clone()
		var quiet, pawn, zeroing []Move
		for _, m := range *ml {
			p.DoMove(m)
			rep := seen[p.ZobristKey()]
			p.UndoMove()
			if rep >= 2 || m.MoveType() == Promotion {
				continue
			}
			switch {
			case p.IsCapturingMove(m):
				zeroing = append(zeroing, m)
			case p.GetPiece(m.From()).TypeOf() == Pawn:
				pawn = append(pawn, m)
				zeroing = append(zeroing, m)
			default:
				quiet = append(quiet, m)
			}
		}
		var cands []Move
		switch {
		case p.HalfMoveClock() >= 80 && len(pawn) > 0:
			cands = pawn
		case p.HalfMoveClock() >= 80 && len(zeroing) > 0:
			cands = zeroing
		case p.HalfMoveClock() < 90 && len(quiet) > 0:
			cands = quiet
		default:
			cands = zeroing
		}
		if len(cands) == 0 {
			t.Fatalf("generator stuck after %d plies on %s", len(game), p.StringFen())
		}
		m := cands[r.Intn(len(cands))]
		game = append(game, m.StringUci())
		p.DoMove(m)
		seen[p.ZobristKey()]++
		if p.HalfMoveClock() > 90 {
			t.Fatalf("generator: half move clock %d", p.HalfMoveClock())
		}
	}
	t.Logf("generated game: %d plies, no position more than twice, half move clock <= 90, ends on %s", len(game), p.StringFen())
	return game
}

func auditKnightShuffle(plies int) []string {
	cycle := []string{"g1f3", "g8f6", "f3g1", "f6g8"}
	var g []string
	for i := 0; i < plies; i++ {
		g = append(g, cycle[i%4])
	}
	return g
}

// child: builds the book named by the environment and reports the size
func TestAudit7_Child(t *testing.T) {
	file := os.Getenv("AUDIT7_FILE")
	if file == "" {
		t.Skip("helper for TestAudit7_*")
	}
	format := FormatFromString[os.Getenv("AUDIT7_FORMAT")]
	b := NewBook()
	if err := b.Initialize("", file, format, false, false); err != nil {
		t.Fatalf("Initialize: %v", err)
	}
	t.Logf("AUDIT7 OK entries=%d", b.NumberOfEntries())
}

func auditRunChild(t *testing.T, content string, format string) {
	t.Helper()
	dir := t.TempDir()
	file := dir + "/long.txt"
	if err := os.WriteFile(file, []byte(content), 0o644); err != nil {
		t.Fatal(err)
	}
	cmd := exec.Command(os.Args[0], "-test.run", "^TestAudit7_Child$", "-test.v")
	cmd.Env = append(os.Environ(), "AUDIT7_FILE="+file, "AUDIT7_FORMAT="+format)
	outBytes, err := cmd.CombinedOutput()
	output := string(outBytes)
	if err != nil || !strings.Contains(output, "AUDIT7 OK") {
		var keep []string
		for _, l := range strings.Split(output, "\n") {
			if strings.Contains(l, "panic") || strings.Contains(l, "goroutine ") || strings.Contains(l, "position.go") || strings.Contains(l, "openingbook.go") {
				keep = append(keep, l)
			}
			if len(keep) > 14 {
				break
			}
		}
		t.Errorf("format %s: book build crashed the process (%v):\n  %s", format, err, strings.Join(keep, "\n  "))
	}
}

func TestAudit7_LongGame_Control641(t *testing.T) {
	// 641 plies still work
	auditRunChild(t, auditSimpleFile([][]string{auditKnightShuffle(641), {"e2e4", "e7e5"}}), "Simple")
}

func TestAudit7_LongRandomGame_Simple(t *testing.T) {
	g := auditLongRandomGame(t, 700)
	auditRunChild(t, auditSimpleFile([][]string{{"e2e4", "e7e5"}, g}), "Simple")
}

func TestAudit7_LongRandomGame_San(t *testing.T) {
	g := auditLongRandomGame(t, 700)
	auditRunChild(t, auditSanFile([][]string{{"e2e4", "e7e5"}, g}), "San")
}

func TestAudit7_LongRandomGame_Pgn(t *testing.T) {
	g := auditLongRandomGame(t, 700)
	auditRunChild(t, auditPgnFile([][]string{{"e2e4", "e7e5"}, g}), "Pgn")
}

func TestAudit7_KnightShuffle642_Simple(t *testing.T) {
	auditRunChild(t, auditSimpleFile([][]string{{"e2e4", "e7e5"}, auditKnightShuffle(642)}), "Simple")
}

package openingbook

// Audit helpers for property C19 (shared by the zz_audit_<n>_test.go files).
//
// The reference ("oracle") is deliberately simple: a game is a list of UCI
// moves. The expected book is computed by replaying every game from the start
// position; the root is visited once per game, every position after a legal
// move is visited once; replay stops at the first move that is not legal.

import (
	"fmt"
	"math/rand"
	"os"
	"path/filepath"
	"sort"
	"strings"
	"testing"

	"github.com/frankkopp/FrankyGo/internal/movegen"
	"github.com/frankkopp/FrankyGo/internal/position"
	. "github.com/frankkopp/FrankyGo/internal/types"
)

// auditBuild writes content into a temp file and builds a book from it via the
// public API (no cache).
func auditBuild(t *testing.T, content string, format BookFormat) *Book {
	t.Helper()
	dir := t.TempDir()
	file := "auditbook.txt"
	if err := os.WriteFile(filepath.Join(dir, file), []byte(content), 0o644); err != nil {
		t.Fatal(err)
	}
	b := NewBook()
	if err := b.Initialize(dir, file, format, false, false); err != nil {
		t.Fatalf("Initialize failed: %v", err)
	}
	return b
}

// auditUciMove resolves an exact uci string (e2e4, e7e8Q / e7e8q) against the legal moves.
func auditUciMove(mg *movegen.Movegen, p *position.Position, uci string) Move {
	ml := mg.GenerateLegalMoves(p, movegen.GenAll)
	for _, m := range *ml {
		if strings.EqualFold(m.StringUci(), uci) {
			return m
		}
	}
	return MoveNone
}

// auditRefresh rebuilds the position from its FEN every 300 plies: the oracle
// must not run into the engine's undo history limit of 641 plies (finding #7).
func auditRefresh(p *position.Position, ply int) *position.Position {
	if ply > 0 && ply%300 == 0 {
		return position.NewPosition(p.StringFen())
	}
	return p
}

// auditExpected computes key -> visit count for the given games (legal prefix each)
// and, per key, a FEN for messages.
func auditExpected(games [][]string) (map[uint64]int, map[uint64]string) {
	counts := map[uint64]int{}
	fens := map[uint64]string{}
	mg := movegen.NewMoveGen()
	for _, g := range games {
		p := position.NewPosition()
		counts[uint64(p.ZobristKey())]++
		fens[uint64(p.ZobristKey())] = p.StringFen()
		for i, u := range g {
			p = auditRefresh(p, i)
			m := auditUciMove(mg, p, u)
			if m == MoveNone {
				break
			}
			p.DoMove(m)
			counts[uint64(p.ZobristKey())]++
			fens[uint64(p.ZobristKey())] = p.StringFen()
		}
	}
	return counts, fens
}

// auditCompare compares the positions and counters of the book with the expectation.
// Returns a list of differences (empty = identical).
func auditCompare(b *Book, counts map[uint64]int, fens map[uint64]string) []string {
	var diffs []string
	for k, c := range counts {
		e, ok := b.bookMap[k]
		if !ok {
			diffs = append(diffs, fmt.Sprintf("MISSING position (expected %d visits): %s", c, fens[k]))
			continue
		}
		if e.Counter != c {
			diffs = append(diffs, fmt.Sprintf("COUNTER %d, expected %d: %s", e.Counter, c, fens[k]))
		}
	}
	extra := 0
	for k, e := range b.bookMap {
		if _, ok := counts[k]; !ok {
			extra++
			diffs = append(diffs, fmt.Sprintf("PHANTOM position in book, in no game (counter %d, key %d)", e.Counter, k))
		}
	}
	sort.Strings(diffs)
	return diffs
}

// auditSound walks the book from the start position along the stored moves and
// checks: every stored move is legal where it is offered, leads to the linked
// successor, is offered only once, and the successor exists. Returns problems
// and the number of entries reached.
func auditSound(b *Book) ([]string, int) {
	var problems []string
	mg := movegen.NewMoveGen()
	seen := map[uint64]bool{}
	var walk func(p *position.Position)
	walk = func(p *position.Position) {
		key := uint64(p.ZobristKey())
		if seen[key] {
			return
		}
		seen[key] = true
		e, ok := b.bookMap[key]
		if !ok {
			problems = append(problems, "entry missing for "+p.StringFen())
			return
		}
		offered := map[uint32]bool{}
		for _, s := range e.Moves {
			m := Move(s.Move)
			if offered[uint32(m.MoveOf())] {
				problems = append(problems, fmt.Sprintf("move %s offered twice on %s", m.StringUci(), p.StringFen()))
			}
			offered[uint32(m.MoveOf())] = true
			if !mg.ValidateMove(p, m) {
				problems = append(problems, fmt.Sprintf("ILLEGAL move %s offered on %s", m.StringUci(), p.StringFen()))
				continue
			}
			p.DoMove(m)
			if uint64(p.ZobristKey()) != s.NextEntry {
				problems = append(problems, fmt.Sprintf("move %s does not lead to linked successor (before undo) %s", m.StringUci(), p.StringFen()))
			} else {
				walk(p)
			}
			p.UndoMove()
		}
	}
	walk(position.NewPosition())
	return problems, len(seen)
}

// auditSan renders move m (legal on p) as SAN, standard PGN export style.
func auditSan(mg *movegen.Movegen, p *position.Position, m Move) string {
	var sb strings.Builder
	legal := mg.GenerateLegalMoves(p, movegen.GenAll).Clone()
	pt := p.GetPiece(m.From()).TypeOf()
	switch {
	case m.MoveType() == Castling:
		if m.To().FileOf() == FileG {
			sb.WriteString("O-O")
		} else {
			sb.WriteString("O-O-O")
		}
	case pt == Pawn:
		if p.IsCapturingMove(m) {
			sb.WriteString(m.From().FileOf().String())
			sb.WriteString("x")
		}
		sb.WriteString(m.To().String())
		if m.MoveType() == Promotion {
			sb.WriteString("=" + m.PromotionType().Char())
		}
	default:
		sb.WriteString(pt.Char())
		others, sameFile, sameRank := 0, 0, 0
		for _, o := range *legal {
			if o.MoveOf() == m.MoveOf() || o.To() != m.To() || p.GetPiece(o.From()).TypeOf() != pt || o.MoveType() == Castling {
				continue
			}
			others++
			if o.From().FileOf() == m.From().FileOf() {
				sameFile++
			}
			if o.From().RankOf() == m.From().RankOf() {
				sameRank++
			}
		}
		if others > 0 {
			switch {
			case sameFile == 0:
				sb.WriteString(m.From().FileOf().String())
			case sameRank == 0:
				sb.WriteString(m.From().RankOf().String())
			default:
				sb.WriteString(m.From().String())
			}
		}
		if p.IsCapturingMove(m) {
			sb.WriteString("x")
		}
		sb.WriteString(m.To().String())
	}
	// check / mate suffix
	p.DoMove(m)
	if p.HasCheck() {
		if mg.GenerateLegalMoves(p, movegen.GenAll).Len() == 0 {
			sb.WriteString("#")
		} else {
			sb.WriteString("+")
		}
	}
	p.UndoMove()
	return sb.String()
}

// auditToSan converts a game in uci moves into SAN tokens (legal prefix only).
func auditToSan(game []string) []string {
	mg := movegen.NewMoveGen()
	p := position.NewPosition()
	var san []string
	for i, u := range game {
		p = auditRefresh(p, i)
		m := auditUciMove(mg, p, u)
		if m == MoveNone {
			break
		}
		san = append(san, auditSan(mg, p, m))
		p.DoMove(m)
	}
	return san
}

// auditSimpleFile renders games as a Simple format file (one game per line).
func auditSimpleFile(games [][]string) string {
	var sb strings.Builder
	for _, g := range games {
		sb.WriteString(strings.Join(g, " "))
		sb.WriteString("\n")
	}
	return sb.String()
}

// auditSanLine "1. e4 e5 2. Nf3"
func auditSanLine(san []string) string {
	var sb strings.Builder
	for i, s := range san {
		if i%2 == 0 {
			if i > 0 {
				sb.WriteString(" ")
			}
			sb.WriteString(fmt.Sprintf("%d. ", i/2+1))
		} else {
			sb.WriteString(" ")
		}
		sb.WriteString(s)
	}
	return sb.String()
}

func auditSanFile(games [][]string) string {
	var sb strings.Builder
	for _, g := range games {
		sb.WriteString(auditSanLine(auditToSan(g)))
		sb.WriteString(" 1/2-1/2\n")
	}
	return sb.String()
}

// auditPgnFile renders games as plain export style PGN (seven tag roster,
// movetext wrapped at 80 columns, result terminator).
func auditPgnFile(games [][]string) string {
	var sb strings.Builder
	for i, g := range games {
		sb.WriteString(fmt.Sprintf("[Event \"Audit %d\"]\n[Site \"?\"]\n[Date \"2020.01.01\"]\n[Round \"%d\"]\n[White \"A\"]\n[Black \"B\"]\n[Result \"1/2-1/2\"]\n\n", i, i))
		words := strings.Fields(auditSanLine(auditToSan(g)) + " 1/2-1/2")
		col := 0
		for _, w := range words {
			if col > 0 && col+1+len(w) > 79 {
				sb.WriteString("\n")
				col = 0
			}
			if col > 0 {
				sb.WriteString(" ")
				col++
			}
			sb.WriteString(w)
			col += len(w)
		}
		sb.WriteString("\n\n")
	}
	return sb.String()
}

// auditRandomGame plays a random legal game of at most maxPly plies. Never
// lets a position occur more than twice and never lets the half move clock
// exceed 90 (so no game is "over" by any automatic rule); stops early at
// mate/stalemate/insufficient material.
func auditRandomGame(r *rand.Rand, maxPly int) []string {
	mg := movegen.NewMoveGen()
	p := position.NewPosition()
	seen := map[position.Key]int{p.ZobristKey(): 1}
	var game []string
	for len(game) < maxPly {
		ml := mg.GenerateLegalMoves(p, movegen.GenAll).Clone()
		if ml.Len() == 0 || p.HasInsufficientMaterial() {
			break
		}
		var cands []Move
		for _, m := range *ml {
			zeroing := p.IsCapturingMove(m) || p.GetPiece(m.From()).TypeOf() == Pawn
			if p.HalfMoveClock() >= 90 && !zeroing {
				continue
			}
			p.DoMove(m)
			rep := seen[p.ZobristKey()]
			p.UndoMove()
			if rep >= 2 {
				continue
			}
			cands = append(cands, m)
		}
		if len(cands) == 0 {
			break
		}
		m := cands[r.Intn(len(cands))]
		game = append(game, m.StringUci())
		p.DoMove(m)
		seen[p.ZobristKey()]++
	}
	return game
}

func auditReport(t *testing.T, title string, diffs []string) {
	t.Helper()
	if len(diffs) == 0 {
		return
	}
	max := len(diffs)
	if max > 12 {
		max = 12
	}
	t.Errorf("%s: %d differences, first %d:\n  %s", title, len(diffs), max, strings.Join(diffs[:max], "\n  "))
}

package openingbook

// Audit C19 #6: two PGN games are glued into one when the result terminator
// of the first is followed by a rest-of-line comment (or any other text) on the
// same line. The moves of the second game are then replayed BEHIND the last
// position of the first game: the book gets positions (and offers moves) which
// occur in no game of the file, the second game itself is missing and the
// counters are wrong.
//
// Root cause: openingbook.go:393 regexResult is anchored at the end of the
// line and the slicing in processPgn (407-413) knows no other game boundary
// (no tag section / blank line detection); processPgnGame then deletes the
// tags of the second game (465) and processSanLine deletes the embedded
// result (517) and all move numbers (516), leaving one long move list.

import (
	"testing"
)

func TestAudit6_ResultFollowedByComment_GamesGlued(t *testing.T) {
	g1 := []string{"e2e4", "e7e5"}
	g2 := []string{"d2d4", "d7d5", "c2c4"}
	pgn := auditPgnHeader + "1. e4 e5 1/2-1/2 ; agreed drawn at once\n\n" +
		auditPgnHeader + "1. d4 d5 2. c4 1-0\n"
	counts, fens := auditExpected([][]string{g1, g2})
	b := auditBuild(t, pgn, Pgn)
	auditReport(t, "result + rest of line comment\n"+pgn, auditCompare(b, counts, fens))
	problems, _ := auditSound(b)
	auditReport(t, "soundness", problems)
}

func TestAudit6_ResultFollowedByBraceComment_GamesGlued(t *testing.T) {
	g1 := []string{"e2e4", "e7e5"}
	g2 := []string{"d2d4", "d7d5", "c2c4"}
	pgn := auditPgnHeader + "1. e4 e5 1/2-1/2 {agreed drawn at once}\n\n" +
		auditPgnHeader + "1. d4 d5 2. c4 1-0\n"
	counts, fens := auditExpected([][]string{g1, g2})
	b := auditBuild(t, pgn, Pgn)
	auditReport(t, "result + brace comment\n"+pgn, auditCompare(b, counts, fens))
}

package openingbook

// Audit C19 #4: a Simple format line containing unreadable moves does NOT
// contribute exactly its legal prefix: unreadable tokens are skipped and the
// replay continues behind them, so the book gets positions which occur in no
// game (and the formats disagree: the SAN reader stops at the bad token).
//
// Root cause: openingbook.go:329 regexSimpleUciMove.FindAllString only collects
// the tokens that look like moves, everything else silently disappears before
// the "stop at first invalid move" logic (358-365) can see it.

import (
	"testing"
)

func TestAudit4_SimpleSkipsUnreadableMoves(t *testing.T) {
	// moves 2 of white and black are unreadable (squares i9/j0 do not exist,
	// or any other garbage), the game record continues with move 3.
	line := "e2e4 e7e5 g1i3 b8j6 f1c4 f8c5\n"
	legalPrefix := [][]string{{"e2e4", "e7e5"}}
	counts, fens := auditExpected(legalPrefix)
	simple := auditBuild(t, line, Simple)
	auditReport(t, "SIMPLE, line "+line, auditCompare(simple, counts, fens))

	// same record in SAN spelling: stops at the unreadable token (correct)
	san := auditBuild(t, "1. e4 e5 2. Ni3 Nj6 3. Bc4 Bc5\n", San)
	auditReport(t, "SAN (control)", auditCompare(san, counts, fens))
	if simple.NumberOfEntries() != san.NumberOfEntries() {
		t.Errorf("same record: Simple book has %d positions, SAN book has %d", simple.NumberOfEntries(), san.NumberOfEntries())
	}
}

// a move number or annotation glued to a coordinate move, a "null move" and
// similar all vanish the same way
func TestAudit4_SimpleSkipsNullMoves(t *testing.T) {
	line := "e2e4 e7e5 0000 0000 d2d4\n" // two null moves ("0000" is the uci null move), then d2d4
	counts, fens := auditExpected([][]string{{"e2e4", "e7e5"}})
	simple := auditBuild(t, line, Simple)
	auditReport(t, "SIMPLE, line "+line, auditCompare(simple, counts, fens))
}

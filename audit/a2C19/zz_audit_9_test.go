package openingbook

// Audit C19 #9 (borderline - input is not strict PGN/SAN): castling written
// with zeros ("0-0", very common in hand made files, the PGN standard demands
// the letter O) is an unreadable move. The line should contribute its legal
// prefix; instead the token is silently deleted as if it were a result and the
// replay goes on with the moves of the WRONG side, which can be legal. The
// book then contains positions of no game. ("0-0-0" is only half deleted, the
// rest "-0" stops the replay as it should.)
//
// Root cause: openingbook.go:495/517 regexSanLineCleanUpResults
// "(1/2|1|0)-(1/2|1|0)" also matches "0-0" (and "1-1", "0-1/2" ...) anywhere in
// the line.

import (
	"testing"
)

func TestAudit9_ZeroCastlingSilentlyDropped(t *testing.T) {
	// 1. Nf3 Nf6 2. Nc3 Nc6 3. e4 e5 4. Bc4 Bc5 5. 0-0 Nd4 6. d3
	// after dropping "0-0" the black move Nd4 is replayed as the WHITE move Nf3-d4
	// and d3?? then fails as black move.
	line := "1. Nf3 Nf6 2. Nc3 Nc6 3. e4 e5 4. Bc4 Bc5 5. 0-0 Nd4 6. d3 1-0\n"
	prefix := [][]string{{"g1f3", "g8f6", "b1c3", "b8c6", "e2e4", "e7e5", "f1c4", "f8c5"}}
	counts, fens := auditExpected(prefix)
	for name, format := range map[string]BookFormat{"San": San, "Pgn": Pgn} {
		b := auditBuild(t, line, format)
		auditReport(t, name+": "+line, auditCompare(b, counts, fens))
	}
}

package openingbook

// Audit C19 #8: which moves the book offers depends on the goroutine schedule
// of the build (and a move played in the games is not offered at all) as soon
// as two games transpose into the same position.
//
// Positions and counters are schedule independent, the move lists are not:
// addToBook only links parent -> child when the child entry is NEW
// (openingbook.go:606-620); when the child already exists (reached earlier by
// another game through another parent) the counter is increased and the
// function returns WITHOUT adding the move to the current parent (607-610).
// So of two parents of a transposition only the one whose goroutine came first
// offers the move. With one goroutine per line that is decided by the scheduler.

import (
	"fmt"
	"sort"
	"strings"
	"testing"

	"github.com/frankkopp/FrankyGo/internal/movegen"
	"github.com/frankkopp/FrankyGo/internal/position"
)

// 12 pairs of transposing games: X Nf6 Y  and  Y Nf6 X for white move pairs.
func auditTranspositionGames() [][]string {
	first := []string{"g1f3", "b1c3", "e2e3", "d2d3", "g2g3", "b2b3"}
	var games [][]string
	for i := 0; i < len(first); i++ {
		for j := i + 1; j < len(first); j++ {
			games = append(games, []string{first[i], "g8f6", first[j], "b8c6"})
			games = append(games, []string{first[j], "g8f6", first[i], "b8c6"})
		}
	}
	return games
}

// every move of every game has to be offered where it was played
func auditMissingEdges(b *Book, games [][]string) []string {
	var missing []string
	mg := movegen.NewMoveGen()
	for _, g := range games {
		p := position.NewPosition()
		for i, u := range g {
			m := auditUciMove(mg, p, u)
			e := b.bookMap[uint64(p.ZobristKey())]
			found := false
			for _, s := range e.Moves {
				if s.Move == uint32(m) {
					found = true
				}
			}
			if !found {
				missing = append(missing, fmt.Sprintf("game %v: move %d (%s) is not offered on %s", g, i+1, u, p.StringFen()))
			}
			p.DoMove(m)
		}
	}
	return missing
}

func auditEdgeFingerprint(b *Book) string {
	var edges []string
	for k, e := range b.bookMap {
		for _, s := range e.Moves {
			edges = append(edges, fmt.Sprintf("%d-%d-%d", k, s.Move, s.NextEntry))
		}
	}
	sort.Strings(edges)
	return strings.Join(edges, ",")
}

func TestAudit8_TranspositionMoveNotOffered(t *testing.T) {
	games := [][]string{
		{"g1f3", "g8f6", "b1c3"},
		{"b1c3", "g8f6", "g1f3"},
	}
	counts, fens := auditExpected(games)
	b := auditBuild(t, auditSimpleFile(games), Simple)
	auditReport(t, "positions/counters (these are fine)", auditCompare(b, counts, fens))
	auditReport(t, "moves of the games which the book does not offer", auditMissingEdges(b, games))
}

func TestAudit8_OfferedMovesDependOnSchedule(t *testing.T) {
	games := auditTranspositionGames()
	content := auditSimpleFile(games)
	prints := map[string]int{}
	for i := 0; i < 40; i++ {
		b := auditBuild(t, content, Simple)
		prints[auditEdgeFingerprint(b)]++
	}
	if len(prints) > 1 {
		t.Errorf("40 builds of the same file gave %d different move graphs (positions and counters identical)", len(prints))
	}
}

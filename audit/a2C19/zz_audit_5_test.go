package openingbook

// Audit C19 #5: PGN comments are not always ignored. A brace comment which
// contains a semicolon, a left brace, or (when it spans lines) a line ending in
// a result-like text cuts the game off at the comment: the moves behind the
// comment are legal but do not get into the book, so the PGN form of a game
// gives a different book than its SAN / Simple form.
//
// Root causes (openingbook.go):
//  - 467 regexTrailingComments (";.*$") is applied per line BEFORE the brace
//    comments are removed (481), so "{...; ...}" loses its closing brace and the
//    rest of the line; the left-over "{..." token stops the replay.
//  - 449 regexBracketComments "{[^{}]*}" does not accept "{" inside a comment
//    (PGN: brace comments do not nest, an inner "{" is plain text).
//  - 407-413 game slicing looks for a result at the end of ANY line, also inside
//    a multi line brace comment.

import (
	"strings"
	"testing"
)

var auditItalian = []string{"e2e4", "e7e5", "g1f3", "b8c6", "f1c4", "f8c5", "c2c3", "g8f6", "d2d4", "e5d4"}

const auditPgnHeader = "[Event \"Audit\"]\n[Site \"?\"]\n[Date \"2020.01.01\"]\n[Round \"1\"]\n[White \"A\"]\n[Black \"B\"]\n[Result \"1-0\"]\n\n"

func auditCheckPgn(t *testing.T, name string, pgn string, games [][]string) {
	t.Helper()
	counts, fens := auditExpected(games)
	b := auditBuild(t, pgn, Pgn)
	auditReport(t, name+"\n"+pgn, auditCompare(b, counts, fens))
}

func TestAudit5_Control_PlainComment(t *testing.T) {
	pgn := auditPgnHeader + "1. e4 e5 2. Nf3 Nc6 {the Italian, a quiet line} 3. Bc4 Bc5 4. c3 Nf6 5. d4 exd4 1-0\n"
	auditCheckPgn(t, "plain comment (control)", pgn, [][]string{auditItalian})
}

func TestAudit5_SemicolonInsideBraceComment(t *testing.T) {
	pgn := auditPgnHeader + "1. e4 e5 2. Nf3 Nc6 {3. Bb5 is the Spanish; here the Italian} 3. Bc4 Bc5 4. c3 Nf6 5. d4 exd4 1-0\n"
	auditCheckPgn(t, "semicolon in brace comment", pgn, [][]string{auditItalian})
}

func TestAudit5_LeftBraceInsideBraceComment(t *testing.T) {
	pgn := auditPgnHeader + "1. e4 e5 2. Nf3 Nc6 {set {e4,e5} of centre pawns} 3. Bc4 Bc5 4. c3 Nf6 5. d4 exd4 1-0\n"
	// per PGN standard 8.2.5 the comment ends at the first "}", the text " of centre pawns}" is
	// then garbage; use the standard conforming variant: inner "{" only.
	pgn = strings.Replace(pgn, "{e4,e5}", "{e4,e5", 1)
	auditCheckPgn(t, "left brace in brace comment", pgn, [][]string{auditItalian})
}

func TestAudit5_MultiLineCommentLineEndsLikeAResult(t *testing.T) {
	pgn := auditPgnHeader + "1. e4 e5 2. Nf3 Nc6 {In the match this line scored 1-0\nand 1/2-1/2 in the two games played} 3. Bc4 Bc5 4. c3 Nf6 5. d4 exd4 1-0\n"
	auditCheckPgn(t, "multi line comment, line ends with 1-0", pgn, [][]string{auditItalian})
}

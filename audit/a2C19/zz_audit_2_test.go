package openingbook

// Audit C19 #2 (exploration, expected to pass): the books built from the
// shipped sample files offer only legal, correctly linked, unique moves.

import (
	"testing"

	"github.com/frankkopp/FrankyGo/internal/config"
)

func TestAudit2_ShippedFilesSound(t *testing.T) {
	for _, f := range []struct {
		file   string
		format BookFormat
	}{
		{"book_smalltest.txt", Simple},
		{"book_graham.txt", San},
		{"pgn_test.pgn", Pgn},
		{"pgn_test2.pgn", Pgn},
		{"ecoe.pgn", Pgn},
		{"superbook2.pgn", Pgn},
	} {
		b := NewBook()
		if err := b.Initialize(config.Settings.Search.BookPath, f.file, f.format, false, false); err != nil {
			t.Errorf("%s: %v", f.file, err)
			continue
		}
		problems, reached := auditSound(b)
		auditReport(t, f.file, problems)
		if reached != b.NumberOfEntries() {
			t.Errorf("%s: %d entries but only %d reachable from the root", f.file, b.NumberOfEntries(), reached)
		}
		t.Logf("%s: %d entries, %d reached", f.file, b.NumberOfEntries(), reached)
	}
}

package openingbook

// Audit C19 #10 (borderline - encoding decoration): a UTF-8 byte order mark
// in front of the file (written by many Windows tools, PGN files from the web
// frequently have one) makes the SAN and the PGN reader drop the complete first
// game, the Simple reader does not care -> the formats disagree about the same
// games and the counters are wrong.
//
// Root cause: openingbook.go:503 regexSanLineStart "^\d+\. ?" is tested against
// the line after strings.TrimSpace, which does not remove U+FEFF; for PGN the
// tag regex (465) removes the tag behind the BOM but the BOM itself stays, is
// joined in front of the move text (474) and the SAN start test fails.

import (
	"testing"
)

func TestAudit10_ByteOrderMark(t *testing.T) {
	games := [][]string{{"e2e4", "e7e5", "g1f3"}, {"d2d4", "d7d5"}}
	counts, fens := auditExpected(games)
	bom := "\xef\xbb\xbf"
	simple := auditBuild(t, bom+auditSimpleFile(games), Simple)
	auditReport(t, "SIMPLE with BOM (control)", auditCompare(simple, counts, fens))
	san := auditBuild(t, bom+auditSanFile(games), San)
	auditReport(t, "SAN with BOM", auditCompare(san, counts, fens))
	pgn := auditBuild(t, bom+auditPgnFile(games), Pgn)
	auditReport(t, "PGN with BOM", auditCompare(pgn, counts, fens))
}

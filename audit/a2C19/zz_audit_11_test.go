package openingbook

// Audit C19 #11 (outside the stated quantifier - a history over two engine
// starts): with the cache switched on - search.go:642 always calls
// Initialize(..., useCache=true, recreateCache=false) - the book is NOT the one
// of the games in the source file once the file has been changed: the
// "<file>.cache" written by the first start is loaded unconditionally.
//
// Root cause: openingbook.go:157-169 / loadFromCache (623) neither compare
// modification time / size / checksum of the source file nor the format.

import (
	"os"
	"path/filepath"
	"testing"
)

func TestAudit11_StaleCache(t *testing.T) {
	dir := t.TempDir()
	file := "book.txt"
	write := func(games [][]string) {
		if err := os.WriteFile(filepath.Join(dir, file), []byte(auditSimpleFile(games)), 0o644); err != nil {
			t.Fatal(err)
		}
	}
	// first engine start
	write([][]string{{"e2e4", "e7e5"}})
	b1 := NewBook()
	if err := b1.Initialize(dir, file, Simple, true, false); err != nil {
		t.Fatal(err)
	}
	// the user replaces the book, second engine start
	newGames := [][]string{{"d2d4", "d7d5", "c2c4"}, {"d2d4", "g8f6"}}
	write(newGames)
	b2 := NewBook()
	if err := b2.Initialize(dir, file, Simple, true, false); err != nil {
		t.Fatal(err)
	}
	counts, fens := auditExpected(newGames)
	auditReport(t, "book after the source file was replaced", auditCompare(b2, counts, fens))
}

package openingbook

// Audit C19 #1: the three formats must produce the same book (positions and
// visit counts) for the same games, and that book must be exactly the one of
// the games. Differential test on random legal games (no decorations at all).

import (
	"math/rand"
	"testing"
)

func auditRandomGames(seed int64, n int, maxPly int) [][]string {
	r := rand.New(rand.NewSource(seed))
	var games [][]string
	for i := 0; i < n; i++ {
		games = append(games, auditRandomGame(r, maxPly))
	}
	return games
}

func TestAudit1_FormatsAgreeOnRandomGames(t *testing.T) {
	games := auditRandomGames(4711, 60, 240)
	counts, fens := auditExpected(games)

	simple := auditBuild(t, auditSimpleFile(games), Simple)
	san := auditBuild(t, auditSanFile(games), San)
	pgn := auditBuild(t, auditPgnFile(games), Pgn)

	auditReport(t, "SIMPLE vs games", auditCompare(simple, counts, fens))
	auditReport(t, "SAN vs games", auditCompare(san, counts, fens))
	auditReport(t, "PGN vs games", auditCompare(pgn, counts, fens))

	for name, b := range map[string]*Book{"simple": simple, "san": san, "pgn": pgn} {
		problems, _ := auditSound(b)
		auditReport(t, "soundness "+name, problems)
	}
	t.Logf("entries: expected %d simple %d san %d pgn %d", len(counts), simple.NumberOfEntries(), san.NumberOfEntries(), pgn.NumberOfEntries())
}

// Control: the same games cut before their first promotion. If only this one
// passes, promotions are the (only) reason for the failure above.
func TestAudit1_Control_NoPromotions(t *testing.T) {
	games := auditRandomGames(4711, 60, 240)
	for i, g := range games {
		for j, u := range g {
			if len(u) == 5 {
				games[i] = g[:j]
				break
			}
		}
	}
	counts, fens := auditExpected(games)
	simple := auditBuild(t, auditSimpleFile(games), Simple)
	san := auditBuild(t, auditSanFile(games), San)
	pgn := auditBuild(t, auditPgnFile(games), Pgn)
	auditReport(t, "SIMPLE vs games", auditCompare(simple, counts, fens))
	auditReport(t, "SAN vs games", auditCompare(san, counts, fens))
	auditReport(t, "PGN vs games", auditCompare(pgn, counts, fens))
}

package openingbook

// Audit C19 #3: Simple (coordinate) format drops every promotion move and the
// rest of the game, SAN/PGN keep them -> formats disagree, and the line
// contributes less than its legal prefix.
//
// Root cause: openingbook.go:322 regexSimpleUciMove has no promotion group, so
// processSimpleLine (329) hands "h7g8" instead of "h7g8q" to GetMoveFromUci,
// which finds no legal move "h7g8" (the legal ones are h7g8Q/R/B/N).

import (
	"testing"
)

// 1. h4 g5 2. hxg5 h6 3. gxh6 e6 4. h7 d6 5. hxg8=Q Kd7 6. Qxf8
var auditPromoGame = []string{"h2h4", "g7g5", "h4g5", "h7h6", "g5h6", "e7e6", "h6h7", "d7d6", "h7g8q", "e8d7", "g8f8"}

func TestAudit3_SimpleFormatLosesPromotions(t *testing.T) {
	games := [][]string{auditPromoGame}
	counts, fens := auditExpected(games)
	if len(counts) != len(auditPromoGame)+1 {
		t.Fatalf("test game is not fully legal: %d positions", len(counts))
	}
	simple := auditBuild(t, auditSimpleFile(games), Simple)
	san := auditBuild(t, auditSanFile(games), San)
	pgn := auditBuild(t, auditPgnFile(games), Pgn)
	t.Logf("simple file: %q", auditSimpleFile(games))
	t.Logf("san file:    %q", auditSanFile(games))
	auditReport(t, "SAN vs game", auditCompare(san, counts, fens))
	auditReport(t, "PGN vs game", auditCompare(pgn, counts, fens))
	auditReport(t, "SIMPLE vs game", auditCompare(simple, counts, fens))
	if simple.NumberOfEntries() != san.NumberOfEntries() {
		t.Errorf("same game: Simple book has %d positions, SAN book has %d", simple.NumberOfEntries(), san.NumberOfEntries())
	}
}

// also with the upper case letter and with "=" the promotion is lost
func TestAudit3_SimpleFormatLosesPromotions_OtherSpellings(t *testing.T) {
	for _, spelling := range []string{"h7g8Q", "h7g8=Q", "h7g8=q"} {
		g := append([]string{}, auditPromoGame...)
		g[8] = spelling
		counts, fens := auditExpected([][]string{auditPromoGame})
		simple := auditBuild(t, auditSimpleFile([][]string{g}), Simple)
		auditReport(t, "SIMPLE with "+spelling, auditCompare(simple, counts, fens))
	}
}

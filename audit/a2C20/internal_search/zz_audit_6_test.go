package search

// C20 audit finding 2, end to end: a cache file with one flipped bit is loaded
// without complaint, and because book moves are played without any legality
// check (search.go:343-366, 401-404) the engine answers "go wtime ..." in the
// start position with an ILLEGAL move.
//
// run: go test ./internal/search/ -run TestZZAudit6 -count=1 -v

import (
	"os"
	"path/filepath"
	"testing"
	"time"

	"github.com/frankkopp/FrankyGo/internal/config"
	"github.com/frankkopp/FrankyGo/internal/movegen"
	"github.com/frankkopp/FrankyGo/internal/openingbook"
	"github.com/frankkopp/FrankyGo/internal/position"
)

func TestZZAudit6BitFlipInCacheGivesIllegalBestMove(t *testing.T) {
	dir := t.TempDir()
	book := filepath.Join(dir, "book.txt")
	// one line: the only book move in the start position is e2e4
	if err := os.WriteFile(book, []byte("e2e4 e7e5 g1f3 b8c6\n"), 0644); err != nil {
		t.Fatal(err)
	}
	// let the engine write the cache
	if err := openingbook.NewBook().Initialize(dir, "book.txt", openingbook.Simple, true, true); err != nil {
		t.Fatal(err)
	}
	cache, err := os.ReadFile(book + ".cache")
	if err != nil {
		t.Fatal(err)
	}

	oldUse, oldPath, oldFile, oldFormat := config.Settings.Search.UseBook, config.Settings.Search.BookPath, config.Settings.Search.BookFile, config.Settings.Search.BookFormat
	defer func() {
		config.Settings.Search.UseBook, config.Settings.Search.BookPath, config.Settings.Search.BookFile, config.Settings.Search.BookFormat = oldUse, oldPath, oldFile, oldFormat
	}()
	config.Settings.Search.UseBook = true
	config.Settings.Search.BookPath = dir
	config.Settings.Search.BookFile = "book.txt"
	config.Settings.Search.BookFormat = "Simple"

	mg := movegen.NewMoveGen()
	illegal := 0
	firstOff := -1
	firstMove := ""
	// only the value message (the tail of the file) is of interest
	for off := len(cache) - 1; off >= len(cache)-120 && off >= 0; off-- {
		mut := append([]byte(nil), cache...)
		mut[off] ^= 0x01
		if err := os.WriteFile(book+".cache", mut, 0644); err != nil {
			t.Fatal(err)
		}
		s := NewSearch()
		p := position.NewPosition()
		sl := NewSearchLimits()
		sl.TimeControl = true
		sl.WhiteTime = 60 * time.Second
		sl.BlackTime = 60 * time.Second
		s.StartSearch(*p, *sl)
		s.WaitWhileSearching()
		r := s.LastSearchResult()
		if !r.BookMove {
			continue
		}
		legal := false
		for _, m := range *mg.GenerateLegalMoves(p, movegen.GenAll) {
			if m.MoveOf() == r.BestMove.MoveOf() {
				legal = true
			}
		}
		if !legal {
			illegal++
			if firstOff < 0 {
				firstOff = off
				firstMove = r.BestMove.StringUci()
			}
		}
	}
	if illegal > 0 {
		t.Fatalf("C20 violated: %d single-bit corruptions of the cache make the engine play an illegal book move in the start position (e.g. bit flip at offset %d of %d: bestmove %s)",
			illegal, firstOff, len(cache), firstMove)
	}
}

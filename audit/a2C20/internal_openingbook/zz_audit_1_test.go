package openingbook

// C20 audit finding 1: a cache file with ONE corrupted byte (the element count
// of the gob encoded map) kills the whole process at start-up with an
// unrecoverable "fatal error: runtime: out of memory".
//
// run: go test ./internal/openingbook/ -run TestZZAudit1 -count=1 -v

import (
	"os"
	"os/exec"
	"path/filepath"
	"strings"
	"testing"
	"time"
)

// child: does what search.initialize() does - a fresh NewBook() and Initialize
// with useCache=true, recreateCache=false.
func TestZZAudit1Child(t *testing.T) {
	p := os.Getenv("ZZ_AUDIT1_BOOK")
	if p == "" {
		t.Skip("helper process only")
	}
	b := NewBook()
	err := b.Initialize(p, "", Simple, true, false)
	if err != nil {
		t.Fatalf("Initialize: %v", err)
	}
	os.Stdout.WriteString("\nZZ_CHILD_OK entries=" + out.Sprintf("%d", b.NumberOfEntries()) + "\n")
}

func TestZZAudit1CorruptMapCountKillsProcess(t *testing.T) {
	dir := t.TempDir()
	ref := zzFromSource(t, dir, zzBook)
	cache := zzCacheBytes(t, dir, zzBook)
	off := zzMapCountOffset(t, cache)
	if int(cache[off]) != len(ref) {
		t.Fatalf("layout: count byte %d, entries %d", cache[off], len(ref))
	}

	// the damaged cache: the one byte holding the number of map entries (27)
	// is replaced by 0xFC = "a 4 byte number follows".
	mut := append([]byte(nil), cache...)
	mut[off] = 0xFC
	book := filepath.Join(dir, "book.txt")
	zzWrite(t, book, []byte(zzBook))
	zzWrite(t, book+".cache", mut)

	cmd := exec.Command(os.Args[0], "-test.run=^TestZZAudit1Child$", "-test.v")
	cmd.Env = append(os.Environ(), "ZZ_AUDIT1_BOOK="+book)
	done := make(chan struct{})
	var output []byte
	var err error
	go func() { output, err = cmd.CombinedOutput(); close(done) }()
	select {
	case <-done:
	case <-time.After(120 * time.Second):
		_ = cmd.Process.Kill()
		t.Fatalf("child hangs")
	}
	s := string(output)
	if err != nil || !strings.Contains(s, "ZZ_CHILD_OK entries=27") {
		idx := strings.Index(s, "fatal error")
		excerpt := s
		if idx >= 0 {
			excerpt = s[idx:]
		}
		if len(excerpt) > 1500 {
			excerpt = excerpt[:1500]
		}
		t.Fatalf("C20 violated: initialisation with a one-byte-damaged cache file did not yield the book, the process died: %v\n%s", err, excerpt)
	}
}

package openingbook

// C20 audit finding 3: a failing cache WRITE (disk full, i/o error, book too
// big for one gob message) panics inside saveToCache while the package mutex
// bookLock is held (openingbook.go:668-672). The engine has no recover():
// the process dies at "isready". If somebody recovers, the mutex stays locked
// and every later book initialisation in the process hangs forever.
//
// A full disk is also the most common origin of a truncated cache file, i.e.
// the history is: start 1 on a full disk leaves a truncated cache (or dies),
// start 2 finds the truncated cache, rebuilds from the source as intended,
// tries to save again and dies.
//
// run: go test ./internal/openingbook/ -run TestZZAudit3 -count=1 -v

import (
	"os"
	"path/filepath"
	"testing"
	"time"
)

func TestZZAudit3CacheOnFullDevice(t *testing.T) {
	if _, err := os.Stat("/dev/full"); err != nil {
		t.Skip("needs /dev/full")
	}
	dir := t.TempDir()
	ref := zzFromSource(t, dir, zzBook)
	book := filepath.Join(dir, "book.txt")
	zzWrite(t, book, []byte(zzBook))
	// the cache "file" lives on a device without free space: every read gives
	// undecodable bytes (zeros), every write gives ENOSPC
	if err := os.Symlink("/dev/full", book+".cache"); err != nil {
		t.Fatal(err)
	}

	b := NewBook()
	err, p, hung := zzInit(b, book, true, false, 20*time.Second)
	failed := false
	if hung {
		t.Errorf("C20 violated: Initialize hangs")
		failed = true
	}
	if p != nil {
		t.Errorf("C20 violated: Initialize panics (kills the engine, nothing recovers): %v", p)
		failed = true
	}
	if err != nil {
		t.Errorf("Initialize error: %v", err)
		failed = true
	}
	if !failed && !zzSame(ref, b.bookMap) {
		t.Errorf("C20 violated: book differs from the book built from the source")
	}

	// repeated initialisation in the same process after the failed one,
	// this time without any cache involved
	os.Remove(book + ".cache")
	b2 := NewBook()
	err, p, hung = zzInit(b2, book, false, false, 5*time.Second)
	if hung {
		// hygiene only: let the blocked goroutines finish and do not block
		// the other tests of the package
		bookLock.Unlock()
		t.Fatalf("C20 violated: the next initialisation in this process hangs forever (bookLock was never released by saveToCache)")
	}
	if p != nil || err != nil {
		t.Fatalf("second initialisation: panic=%v err=%v", p, err)
	}
	if !zzSame(ref, b2.bookMap) {
		t.Errorf("second initialisation: wrong book")
	}
}

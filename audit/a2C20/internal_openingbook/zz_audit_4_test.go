package openingbook

// C20 audit finding 4: the cache is never checked against the source file it
// belongs to (no size / mtime / hash / format). After the source file has
// changed, initialisation yields the OLD book from the cache, not the book
// built from the source file. The same happens when the same file is read
// with another BookFormat.
//
// run: go test ./internal/openingbook/ -run TestZZAudit4 -count=1 -v

import (
	"path/filepath"
	"testing"
	"time"
)

func TestZZAudit4StaleCache(t *testing.T) {
	dir := t.TempDir()
	ref2 := zzFromSource(t, dir, zzBook2)

	book := filepath.Join(dir, "book.txt")
	zzWrite(t, book, []byte(zzBook))
	b := NewBook()
	if err, p, hung := zzInit(b, book, true, false, 20*time.Second); err != nil || p != nil || hung {
		t.Fatal(err, p, hung)
	}

	// the book file is replaced by another book (later mtime, other size)
	time.Sleep(20 * time.Millisecond)
	zzWrite(t, book, []byte(zzBook2))

	c := NewBook()
	if err, p, hung := zzInit(c, book, true, false, 20*time.Second); err != nil || p != nil || hung {
		t.Fatal(err, p, hung)
	}
	if !zzSame(ref2, c.bookMap) {
		t.Fatalf("C20 violated: initialisation does not yield the book built from the source file: %d entries, source has %d (the cache of the previous content was used)",
			len(c.bookMap), len(ref2))
	}
}

package openingbook

// C20 audit finding 5: repeated initialisations of one Book.
// (a) When the book came from the cache, b.initialized stays false
//     (openingbook.go:164-167 returns before line 228), so "multiple calls will
//     be ignored" does not hold: every further Initialize loads again.
// (b) gob decodes INTO the existing map (openingbook.go:640) - it adds to what
//     is there. A book loaded from cache B on top of cache A is A+B, while the
//     same call sequence with a missing/damaged B cache gives exactly B
//     (rebuild uses make()). So "loaded from cache" != "built from source".
//
// run: go test ./internal/openingbook/ -run TestZZAudit5 -count=1 -v

import (
	"os"
	"path/filepath"
	"testing"
	"time"
)

func TestZZAudit5RepeatedInitMergesCaches(t *testing.T) {
	dir := t.TempDir()
	ref2 := zzFromSource(t, dir, zzBook2)

	bookA := filepath.Join(dir, "a.txt")
	bookB := filepath.Join(dir, "b.txt")
	zzWrite(t, bookA, []byte(zzBook))
	zzWrite(t, bookB, []byte(zzBook2))
	// create both caches
	for _, f := range []string{bookA, bookB} {
		x := NewBook()
		if err, p, hung := zzInit(x, f, true, true, 20*time.Second); err != nil || p != nil || hung {
			t.Fatal(err, p, hung)
		}
	}

	run := func() *Book {
		b := NewBook()
		if err, p, hung := zzInit(b, bookA, true, false, 20*time.Second); err != nil || p != nil || hung {
			t.Fatal(err, p, hung)
		}
		if err, p, hung := zzInit(b, bookB, true, false, 20*time.Second); err != nil || p != nil || hung {
			t.Fatal(err, p, hung)
		}
		return b
	}

	// history 1: cache of B is damaged (truncated) -> rebuilt from source
	full, _ := os.ReadFile(bookB + ".cache")
	zzWrite(t, bookB+".cache", full[:len(full)/2])
	b1 := run()
	// history 2: cache of B is intact (it was just rewritten by history 1)
	b2 := run()

	t.Logf("initialized flag after load from cache: %v", b2.initialized)
	t.Logf("entries: damaged cache -> %d, intact cache -> %d, source of B -> %d", len(b1.bookMap), len(b2.bookMap), len(ref2))
	if !zzSame(b1.bookMap, b2.bookMap) {
		t.Errorf("C20 violated: same call sequence, the result depends on the state of the cache file: %d entries with a damaged cache, %d entries with an intact cache",
			len(b1.bookMap), len(b2.bookMap))
	}
	if !zzSame(ref2, b2.bookMap) && !zzSame(zzFromSource(t, dir, zzBook), b2.bookMap) {
		t.Errorf("C20 violated: book loaded from cache (%d entries) is neither book A nor book B (%d entries) as built from their source", len(b2.bookMap), len(ref2))
	}
}

package openingbook

// Shared helpers for the C20 audit tests (zz_audit_<n>_test.go).

import (
	"os"
	"path/filepath"
	"testing"
	"time"
)

// a small book in "Simple" format: 5 lines, 27 positions
const zzBook = `e2e4 e7e5 g1f3 b8c6 f1b5 a7a6
e2e4 c7c5 g1f3 d7d6 d2d4 c5d4
d2d4 d7d5 c2c4 e7e6 b1c3 g8f6
d2d4 g8f6 c2c4 g7g6 b1c3 f8g7
c2c4 e7e5 b1c3 g8f6
`

// a different book
const zzBook2 = `g1f3 d7d5 g2g3 g8f6 f1g2 c7c6
b2b3 e7e5 c1b2 b8c6
`

func zzWrite(t *testing.T, path string, content []byte) {
	t.Helper()
	if err := os.WriteFile(path, content, 0644); err != nil {
		t.Fatal(err)
	}
}

// zzFromSource builds the book from the source only (no cache involved).
func zzFromSource(t *testing.T, dir string, content string) map[uint64]BookEntry {
	t.Helper()
	p := filepath.Join(dir, "zz_ref_source.txt")
	zzWrite(t, p, []byte(content))
	b := NewBook()
	if err := b.Initialize(p, "", Simple, false, false); err != nil {
		t.Fatal(err)
	}
	return b.bookMap
}

// zzCacheBytes builds a book with cache and returns the bytes of the cache file
// the engine wrote.
func zzCacheBytes(t *testing.T, dir string, content string) []byte {
	t.Helper()
	p := filepath.Join(dir, "zz_ref_cache.txt")
	zzWrite(t, p, []byte(content))
	b := NewBook()
	if err := b.Initialize(p, "", Simple, true, true); err != nil {
		t.Fatal(err)
	}
	data, err := os.ReadFile(p + ".cache")
	if err != nil {
		t.Fatal(err)
	}
	return data
}

// zzSame compares two books: same keys, same counters, same set of moves per
// position (the order of the moves depends on the goroutine schedule of the
// parallel build and is not compared).
func zzSame(a, b map[uint64]BookEntry) bool {
	if len(a) != len(b) {
		return false
	}
	for k, v := range a {
		w, ok := b[k]
		if !ok || v.ZobristKey != w.ZobristKey || v.Counter != w.Counter || len(v.Moves) != len(w.Moves) {
			return false
		}
		m := map[Successor]bool{}
		for _, s := range v.Moves {
			m[s] = true
		}
		for _, s := range w.Moves {
			if !m[s] {
				return false
			}
		}
	}
	return true
}

// zzInit runs Initialize guarded by a timeout; a panic is reported as string.
func zzInit(b *Book, path string, useCache, recreate bool, timeout time.Duration) (err error, panicked interface{}, hung bool) {
	type res struct {
		err error
		p   interface{}
	}
	done := make(chan res, 1)
	go func() {
		var r res
		defer func() {
			if p := recover(); p != nil {
				r.p = p
			}
			done <- r
		}()
		r.err = b.Initialize(path, "", Simple, useCache, recreate)
	}()
	select {
	case r := <-done:
		return r.err, r.p, false
	case <-time.After(timeout):
		return nil, nil, true
	}
}

// zzValueMsg returns the offset of the first byte behind the header of the last
// gob message of the stream (the value message): [len][typeid][0][count]...
// It returns the offset of the count of the map.
func zzMapCountOffset(t *testing.T, data []byte) int {
	t.Helper()
	readUint := func(off int) (uint64, int) {
		b := data[off]
		if b < 0x80 {
			return uint64(b), 1
		}
		n := int(-int8(b))
		var v uint64
		for i := 0; i < n; i++ {
			v = v<<8 | uint64(data[off+1+i])
		}
		return v, 1 + n
	}
	off := 0
	last := 0
	for off < len(data) {
		last = off
		l, w := readUint(off)
		off += w + int(l)
	}
	if off != len(data) {
		t.Fatalf("cannot parse gob stream")
	}
	_, w := readUint(last) // message length
	off = last + w
	_, w = readUint(off) // type id (positive: a value)
	off += w
	if data[off] != 0 { // singleton marker
		t.Fatalf("unexpected gob layout")
	}
	return off + 1
}

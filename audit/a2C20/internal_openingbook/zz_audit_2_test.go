package openingbook

// C20 audit finding 2: the cache file carries no integrity information
// (no checksum, no length, no version). Most single-byte corruptions still
// decode as a gob stream, loadFromCache reports success and Initialize returns
// a book which is NOT the book built from the source file - silently.
//
// run: go test ./internal/openingbook/ -run TestZZAudit2 -count=1 -v

import (
	"path/filepath"
	"testing"
	"time"
)

func TestZZAudit2CorruptedCacheAcceptedSilently(t *testing.T) {
	dir := t.TempDir()
	ref := zzFromSource(t, dir, zzBook)
	cache := zzCacheBytes(t, dir, zzBook)
	book := filepath.Join(dir, "book.txt")
	zzWrite(t, book, []byte(zzBook))

	accepted := 0
	first := -1
	var firstLen int
	for off := 0; off < len(cache); off++ {
		mut := append([]byte(nil), cache...)
		mut[off] ^= 0x01 // one flipped bit
		zzWrite(t, book+".cache", mut)
		b := NewBook()
		err, p, hung := zzInit(b, book, true, false, 20*time.Second)
		if hung {
			t.Fatalf("bit flip at offset %d: Initialize hangs", off)
		}
		if p != nil {
			t.Fatalf("bit flip at offset %d: Initialize panics: %v", off, p)
		}
		if err != nil {
			t.Fatalf("bit flip at offset %d: Initialize error: %v", off, err)
		}
		if !zzSame(ref, b.bookMap) {
			accepted++
			if first < 0 {
				first = off
				firstLen = len(b.bookMap)
			}
		}
	}
	if accepted > 0 {
		t.Fatalf("C20 violated: %d of %d single-bit corruptions of the cache file were loaded without any error "+
			"and yield a book different from the book built from the source (first: offset %d, %d entries instead of %d)",
			accepted, len(cache), first, firstLen, len(ref))
	}
}

// The same for a cache file whose tail was overwritten with zeros (a torn
// write: the file has its full length but the last block never hit the disk).
func TestZZAudit2ZeroedTailAcceptedSilently(t *testing.T) {
	dir := t.TempDir()
	ref := zzFromSource(t, dir, zzBook)
	cache := zzCacheBytes(t, dir, zzBook)
	book := filepath.Join(dir, "book.txt")
	zzWrite(t, book, []byte(zzBook))

	bad := 0
	first := -1
	for keep := 0; keep < len(cache); keep++ {
		mut := make([]byte, len(cache))
		copy(mut, cache[:keep])
		zzWrite(t, book+".cache", mut)
		b := NewBook()
		err, p, hung := zzInit(b, book, true, false, 20*time.Second)
		if hung || p != nil || err != nil {
			t.Fatalf("zeroed tail after %d bytes: hung=%v panic=%v err=%v", keep, hung, p, err)
		}
		if !zzSame(ref, b.bookMap) {
			bad++
			if first < 0 {
				first = keep
			}
		}
	}
	if bad > 0 {
		t.Fatalf("C20 violated: %d of %d cache files with a zeroed tail were loaded without error and yield a wrong book (first: %d valid bytes)", bad, len(cache), first)
	}
}

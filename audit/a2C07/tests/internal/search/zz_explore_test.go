//go:build verif
// +build verif

package search

import (
	"fmt"
	"os"
	"strconv"
	"math/rand"
	"testing"
	"time"

	"github.com/frankkopp/FrankyGo/internal/config"
	"github.com/frankkopp/FrankyGo/internal/position"
	. "github.com/frankkopp/FrankyGo/internal/types"
	"github.com/frankkopp/FrankyGo/internal/verifhook"
)

type refBoard struct {
	b    [64]Piece
	stm  Color
	ep   Square
	cr   CastlingRights
}

func refFrom(p *position.Position) *refBoard {
	r := &refBoard{}
	for sq := SqA1; sq < SqNone; sq++ {
		r.b[sq] = p.GetPiece(sq)
	}
	r.stm = p.NextPlayer()
	r.ep = p.GetEnPassantSquare()
	r.cr = p.CastlingRights()
	return r
}

func onBoard(f, r int) bool { return f >= 0 && f < 8 && r >= 0 && r < 8 }
func sqOf(f, r int) Square  { return Square(r*8 + f) }

var knightD = [8][2]int{{1, 2}, {2, 1}, {2, -1}, {1, -2}, {-1, -2}, {-2, -1}, {-2, 1}, {-1, 2}}
var kingD = [8][2]int{{1, 0}, {1, 1}, {0, 1}, {-1, 1}, {-1, 0}, {-1, -1}, {0, -1}, {1, -1}}
var rookD = [4][2]int{{1, 0}, {0, 1}, {-1, 0}, {0, -1}}
var bishopD = [4][2]int{{1, 1}, {-1, 1}, {-1, -1}, {1, -1}}

// attacked tells if sq is attacked by a piece of color by
func (r *refBoard) attacked(sq Square, by Color) bool {
	f, rk := int(sq)&7, int(sq)>>3
	// pawns
	dir := 1
	if by == Black {
		dir = -1
	}
	for _, df := range []int{-1, 1} {
		pf, pr := f+df, rk-dir
		if onBoard(pf, pr) && r.b[sqOf(pf, pr)] == MakePiece(by, Pawn) {
			return true
		}
	}
	for _, d := range knightD {
		if onBoard(f+d[0], rk+d[1]) && r.b[sqOf(f+d[0], rk+d[1])] == MakePiece(by, Knight) {
			return true
		}
	}
	for _, d := range kingD {
		if onBoard(f+d[0], rk+d[1]) && r.b[sqOf(f+d[0], rk+d[1])] == MakePiece(by, King) {
			return true
		}
	}
	for _, d := range rookD {
		for i := 1; onBoard(f+i*d[0], rk+i*d[1]); i++ {
			pc := r.b[sqOf(f+i*d[0], rk+i*d[1])]
			if pc != PieceNone {
				if pc == MakePiece(by, Rook) || pc == MakePiece(by, Queen) {
					return true
				}
				break
			}
		}
	}
	for _, d := range bishopD {
		for i := 1; onBoard(f+i*d[0], rk+i*d[1]); i++ {
			pc := r.b[sqOf(f+i*d[0], rk+i*d[1])]
			if pc != PieceNone {
				if pc == MakePiece(by, Bishop) || pc == MakePiece(by, Queen) {
					return true
				}
				break
			}
		}
	}
	return false
}

func (r *refBoard) kingSq(c Color) Square {
	for sq := SqA1; sq < SqNone; sq++ {
		if r.b[sq] == MakePiece(c, King) {
			return sq
		}
	}
	return SqNone
}

func (r *refBoard) inCheck() bool {
	return r.attacked(r.kingSq(r.stm), r.stm.Flip())
}

// legal returns all legal moves (engine move encoding without sort value)
func (r *refBoard) legal() []Move {
	var res []Move
	us := r.stm
	them := us.Flip()
	try := func(m Move) {
		// make the move on a copy
		c := *r
		from, to := m.From(), m.To()
		pc := c.b[from]
		c.b[from] = PieceNone
		switch m.MoveType() {
		case Normal:
			c.b[to] = pc
		case Promotion:
			c.b[to] = MakePiece(us, m.PromotionType())
		case EnPassant:
			c.b[to] = pc
			if us == White {
				c.b[to-8] = PieceNone
			} else {
				c.b[to+8] = PieceNone
			}
		case Castling:
			c.b[to] = pc
			switch to {
			case SqG1:
				c.b[SqH1] = PieceNone
				c.b[SqF1] = WhiteRook
			case SqC1:
				c.b[SqA1] = PieceNone
				c.b[SqD1] = WhiteRook
			case SqG8:
				c.b[SqH8] = PieceNone
				c.b[SqF8] = BlackRook
			case SqC8:
				c.b[SqA8] = PieceNone
				c.b[SqD8] = BlackRook
			}
		}
		if !c.attacked(c.kingSq(us), them) {
			res = append(res, m)
		}
	}
	for from := SqA1; from < SqNone; from++ {
		pc := r.b[from]
		if pc == PieceNone || pc.ColorOf() != us {
			continue
		}
		f, rk := int(from)&7, int(from)>>3
		switch pc.TypeOf() {
		case Pawn:
			dir, startR, promR := 1, 1, 7
			if us == Black {
				dir, startR, promR = -1, 6, 0
			}
			add := func(to Square) {
				if int(to)>>3 == promR {
					for _, pt := range []PieceType{Queen, Rook, Bishop, Knight} {
						try(CreateMove(from, to, Promotion, pt))
					}
				} else {
					try(CreateMove(from, to, Normal, PtNone))
				}
			}
			if onBoard(f, rk+dir) && r.b[sqOf(f, rk+dir)] == PieceNone {
				add(sqOf(f, rk+dir))
				if rk == startR && r.b[sqOf(f, rk+2*dir)] == PieceNone {
					try(CreateMove(from, sqOf(f, rk+2*dir), Normal, PtNone))
				}
			}
			for _, df := range []int{-1, 1} {
				if !onBoard(f+df, rk+dir) {
					continue
				}
				to := sqOf(f+df, rk+dir)
				if r.b[to] != PieceNone && r.b[to].ColorOf() == them {
					add(to)
				} else if to == r.ep && r.ep != SqNone && r.b[to] == PieceNone &&
					r.b[sqOf(f+df, rk)] == MakePiece(them, Pawn) {
					try(CreateMove(from, to, EnPassant, PtNone))
				}
			}
		case Knight, King:
			ds := knightD
			if pc.TypeOf() == King {
				ds = kingD
			}
			for _, d := range ds {
				if !onBoard(f+d[0], rk+d[1]) {
					continue
				}
				to := sqOf(f+d[0], rk+d[1])
				if r.b[to] == PieceNone || r.b[to].ColorOf() == them {
					try(CreateMove(from, to, Normal, PtNone))
				}
			}
			if pc.TypeOf() == King && !r.attacked(from, them) {
				type cs struct {
					right        CastlingRights
					k, rook      Square
					empty, safe  []Square
					to           Square
				}
				for _, c := range []cs{
					{CastlingWhiteOO, SqE1, SqH1, []Square{SqF1, SqG1}, []Square{SqF1, SqG1}, SqG1},
					{CastlingWhiteOOO, SqE1, SqA1, []Square{SqD1, SqC1, SqB1}, []Square{SqD1, SqC1}, SqC1},
					{CastlingBlackOO, SqE8, SqH8, []Square{SqF8, SqG8}, []Square{SqF8, SqG8}, SqG8},
					{CastlingBlackOOO, SqE8, SqA8, []Square{SqD8, SqC8, SqB8}, []Square{SqD8, SqC8}, SqC8},
				} {
					if !r.cr.Has(c.right) || from != c.k || r.b[c.rook] != MakePiece(us, Rook) {
						continue
					}
					ok := true
					for _, e := range c.empty {
						if r.b[e] != PieceNone {
							ok = false
						}
					}
					for _, e := range c.safe {
						if r.attacked(e, them) {
							ok = false
						}
					}
					if ok {
						try(CreateMove(from, c.to, Castling, PtNone))
					}
				}
			}
		default:
			var ds [][2]int
			if pc.TypeOf() == Rook || pc.TypeOf() == Queen {
				ds = append(ds, rookD[:]...)
			}
			if pc.TypeOf() == Bishop || pc.TypeOf() == Queen {
				ds = append(ds, bishopD[:]...)
			}
			for _, d := range ds {
				for i := 1; onBoard(f+i*d[0], rk+i*d[1]); i++ {
					to := sqOf(f+i*d[0], rk+i*d[1])
					if r.b[to] == PieceNone {
						try(CreateMove(from, to, Normal, PtNone))
						continue
					}
					if r.b[to].ColorOf() == them {
						try(CreateMove(from, to, Normal, PtNone))
					}
					break
				}
			}
		}
	}
	return res
}


var exploreFens = []string{
	position.StartFen,
	"r3k2r/p1ppqpb1/bn2pnp1/3PN3/1p2P3/2N2Q1p/PPPBBPPP/R3K2R w KQkq - 0 1",
	"8/2p5/3p4/KP5r/1R3p1k/8/4P1P1/8 w - - 0 1",
	"r3k2r/Pppp1ppp/1b3nbN/nP6/BBP1P3/q4N2/Pp1P2PP/R2Q1RK1 w kq - 0 1",
	"rnbq1k1r/pp1Pbppp/2p5/8/2B5/8/PPP1NnPP/RNBQK2R w KQ - 1 8",
	"r4rk1/1pp1qppp/p1np1n2/2b1p1B1/2B1P1b1/P1NP1N2/1PP1QPPP/R4RK1 w - - 0 10",
	"8/P1k5/8/8/8/8/5K1p/8 w - - 0 1",
	"4k3/1P4P1/8/8/8/8/1p4p1/4K3 w - - 0 1",
	"8/8/8/1k1pP3/8/8/8/4K2R w K d6 0 1",
	"7k/5K2/6Q1/8/8/8/8/8 w - - 0 1",
	"k7/2K5/8/1Q6/8/8/8/8 w - - 0 1",
	"8/8/8/8/8/5k2/7p/7K b - - 0 1",
	"5k2/5P2/5K2/8/8/8/8/8 w - - 0 1",
	"8/6p1/5p2/5k1K/7P/8/8/8 w - - 0 1",
	"6k1/5ppp/8/8/8/8/8/R5K1 w - - 0 1",
	"r1bqkb1r/pppp1ppp/2n2n2/4p2Q/2B1P3/8/PPPP1PPP/RNB1K1NR w KQkq - 4 4",
	"8/8/8/8/8/2k5/1q6/K7 w - - 0 1",
	"8/8/8/8/3k4/8/3P4/3K4 w - - 0 1",
	"8/8/8/4k3/8/8/8/R3K3 w Q - 90 80",
	"8/8/1p6/1Pk5/8/1K6/8/8 b - - 95 80",
	"k7/P7/K7/8/8/8/8/6B1 w - - 0 1",
	"8/8/8/8/8/k7/p1K5/8 b - - 0 1",
	"3k4/3P4/3K4/8/8/8/8/8 b - - 0 1",
	"rnb1kbnr/pppp1ppp/8/4p3/6Pq/5P2/PPPPP2P/RNBQKBNR w KQkq - 1 3",
	"6k1/5ppp/8/8/8/8/5PPP/3R2K1 w - - 0 1",
	"2kr4/ppp5/8/8/8/8/5q2/7K w - - 0 1",
	"8/8/8/2k5/2pP4/8/8/4K3 b - d3 0 1",
}

func TestZZExplore(t *testing.T) {
	seed := time.Now().UnixNano()
	if v := os.Getenv("ZZSEED"); v != "" {
		seed, _ = strconv.ParseInt(v, 10, 64)
	}
	fmt.Fprintf(os.Stderr, "ZZSEED=%d\n", seed)
	rnd := rand.New(rand.NewSource(seed))
	config.Settings.Search.UseBook = false
	config.Settings.Search.TTSize = 8
	bad := 0
	events := 0
	verifhook.EventFn = func(kind int, a interface{}) {
		if kind != verifhook.TerminalMate && kind != verifhook.TerminalStalemate {
			return
		}
		events++
		p := a.(*position.Position)
		r := refFrom(p)
		n := len(r.legal())
		chk := r.inCheck()
		if n != 0 || (kind == verifhook.TerminalMate) != chk {
			bad++
			t.Errorf("kind %d on %s: legal %d check %v", kind, p.StringFen(), n, chk)
		}
	}
	s := NewSearch()
	for iter := 0; iter < 3000 && bad == 0; iter++ {
		c := &config.Settings.Search
		b := func() bool { return rnd.Intn(2) == 0 }
		c.UseFP, c.UseLmp, c.UseLmr, c.UseNullMove, c.UseRazoring, c.UseRFP, c.UseQFP = b(), b(), b(), b(), b(), b(), b()
		c.UseTT, c.UseQSTT, c.UseSEE, c.UseMDP, c.UseIID, c.UsePVS = b(), b(), b(), b(), b(), b()
		c.UseExt, c.UseExtAddDepth, c.UseCheckExt, c.UseThreatExt = b(), b(), b(), b()
		c.UsePromNonQuiet, c.UseKiller, c.UseHistoryCounter, c.UseCounterMoves = b(), b(), b(), b()
		c.UseQuiescence = rnd.Intn(4) != 0
		c.UseTTMove, c.UseTTValue = b(), b()
		if iter%10 == 0 {
			s.NewGame()
		}
		p, _ := position.NewPositionFen(exploreFens[rnd.Intn(len(exploreFens))])
		for i := rnd.Intn(30); i > 0; i-- {
			ms := refFrom(p).legal()
			if len(ms) == 0 {
				break
			}
			p.DoMove(ms[rnd.Intn(len(ms))])
		}
		if len(refFrom(p).legal()) == 0 {
			continue
		}
		if rb := refFrom(p); rb.attacked(rb.kingSq(rb.stm.Flip()), rb.stm) {
			t.Fatalf("illegal test position %s", p.StringFen())
		}
		sl := Limits{Depth: 3 + rnd.Intn(5), Nodes: 400000}
		switch rnd.Intn(4) {
		case 0:
			sl = Limits{Nodes: uint64(1 + rnd.Intn(200000))}
		case 1:
			sl = Limits{TimeControl: true, MoveTime: time.Duration(21+rnd.Intn(60)) * time.Millisecond}
		}
		c.UseQSStandpat = true
		config.Settings.Eval.UseLazyEval = b()
		config.Settings.Eval.UseMobility = b()
		fmt.Fprintf(os.Stderr, "ZZITER %d fen %s limits %+v cfg %+v\n", iter, p.StringFen(), sl, *c)
		s.StartSearch(*p, sl)
		s.WaitWhileSearching()
	}
	t.Logf("events %d bad %d", events, bad)
}

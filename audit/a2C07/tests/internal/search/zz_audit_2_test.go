package search

import (
	"testing"

	"github.com/frankkopp/FrankyGo/internal/config"
	"github.com/frankkopp/FrankyGo/internal/evaluator"
	"github.com/frankkopp/FrankyGo/internal/movegen"
	"github.com/frankkopp/FrankyGo/internal/position"
	. "github.com/frankkopp/FrankyGo/internal/types"
)

// Property C07, first clause: "whenever the search scores a position as
// checkmate ... the side to move there has no legal move".
//
// The static evaluation is not bounded below the mate scores. With the material
// of 8 promoted pawns (accepted by the UCI position command: 9 queens, 2 rooks,
// 1 bishop, 2 knights against a bare king) the evaluation of a quiet position
// lands inside the mate range (ValueCheckMateThreshold, ValueCheckMate].
//
// Root: 1QQ2B2/3KQ3/Q4Q2/6N1/5RQ1/3Q4/7k/QRQ1N3 w - - 0 1
// After 1.Ne4 (g5e4) black is NOT in check and has a legal move, the static
// evaluation of that position is exactly -9999 == -ValueCheckMate+1: the score
// of "checkmated at ply 1". A depth 1 search announces "mate 1" with g5e4,
// although g5e4 does not mate (and eight real mates in one exist).
func TestZZAudit2_EvalScoresQuietPositionAsCheckmate(t *testing.T) {
	config.Settings.Search.UseBook = false
	mg := movegen.NewMoveGen()

	// a) the leaf itself
	leaf, _ := position.NewPositionFen("1QQ2B2/3KQ3/Q4Q2/8/4NRQ1/3Q4/7k/QRQ1N3 b - - 1 1")
	n := mg.GenerateLegalMoves(leaf, movegen.GenAll).Len()
	v := evaluator.NewEvaluator().Evaluate(leaf)
	t.Logf("leaf %s: in check %v, legal moves %d, static eval %d (%s)", leaf.StringFen(), leaf.HasCheck(), n, v, v.String())
	if v.IsCheckMateValue() && n > 0 {
		t.Errorf("leaf with %d legal moves and not in check is scored %d = '%s' (== -ValueCheckMate+1: %v)", n, v, v.String(), v == -ValueCheckMate+1)
	}

	// b) the search result
	p, err := position.NewPositionFen("1QQ2B2/3KQ3/Q4Q2/6N1/5RQ1/3Q4/7k/QRQ1N3 w - - 0 1")
	if err != nil {
		t.Fatal(err)
	}
	s := NewSearch()
	s.StartSearch(*p, Limits{Depth: 1})
	s.WaitWhileSearching()
	r := s.LastSearchResult()
	p.DoMove(r.BestMove)
	n = mg.GenerateLegalMoves(p, movegen.GenAll).Len()
	t.Logf("depth 1: bestmove %s value %d (%s); afterwards black: in check %v, legal moves %d, checkmates counted %d",
		r.BestMove.StringUci(), r.BestValue, r.BestValue.String(), p.HasCheck(), n, s.Statistics().Checkmates)
	if r.BestValue == ValueCheckMate-1 && n > 0 {
		t.Errorf("search announces '%s' for %s but the position after it is no checkmate (%d legal moves, in check %v)",
			r.BestValue.String(), r.BestMove.StringUci(), n, p.HasCheck())
	}
}

package search

import (
	"testing"

	"github.com/frankkopp/FrankyGo/internal/config"
	"github.com/frankkopp/FrankyGo/internal/position"
	. "github.com/frankkopp/FrankyGo/internal/types"
)

// Property C07 (converse clause): a root position without legal moves is
// reported as mated (value -mate) when in check.
//
// White is checkmated (Kf1, black Kf3 + Rh1#). The mating move Rh1# was the
// 100th reversible half move, so the FEN carries a half move clock of 100.
// Checkmate ends the game - the 50-moves-rule can not apply any more.
func TestZZAudit1_RootMateWithHalfMoveClock100(t *testing.T) {
	config.Settings.Search.UseBook = false
	for _, fen := range []string{
		"8/8/8/8/8/5k2/8/5K1r w - - 100 120", // mated, clock 100
		"8/8/8/8/8/5k2/8/5K1r w - - 99 120",  // control: mated, clock 99
	} {
		p, err := position.NewPositionFen(fen)
		if err != nil {
			t.Fatal(err)
		}
		s := NewSearch()
		s.StartSearch(*p, Limits{Depth: 4})
		s.WaitWhileSearching()
		r := s.LastSearchResult()
		t.Logf("%s -> value %s (%d) bestmove %s checkmates=%d", fen, r.BestValue.String(), r.BestValue, r.BestMove.StringUci(), s.Statistics().Checkmates)
		if r.BestValue != -ValueCheckMate {
			t.Errorf("root position %q is checkmate but reported with value %d (%s) instead of %d", fen, r.BestValue, r.BestValue.String(), -ValueCheckMate)
		}
	}
}

package movegen

import (
	"math/rand"
	"sort"
	"testing"

	"github.com/frankkopp/FrankyGo/internal/config"
	"github.com/frankkopp/FrankyGo/internal/position"
	. "github.com/frankkopp/FrankyGo/internal/types"
)

// ---------------------------------------------------------------------------
// independent, slow and simple reference move generator (mailbox)
// ---------------------------------------------------------------------------

type refBoard struct {
	b    [64]Piece
	stm  Color
	ep   Square
	cr   CastlingRights
}

func refFrom(p *position.Position) *refBoard {
	r := &refBoard{}
	for sq := SqA1; sq < SqNone; sq++ {
		r.b[sq] = p.GetPiece(sq)
	}
	r.stm = p.NextPlayer()
	r.ep = p.GetEnPassantSquare()
	r.cr = p.CastlingRights()
	return r
}

func onBoard(f, r int) bool { return f >= 0 && f < 8 && r >= 0 && r < 8 }
func sqOf(f, r int) Square  { return Square(r*8 + f) }

var knightD = [8][2]int{{1, 2}, {2, 1}, {2, -1}, {1, -2}, {-1, -2}, {-2, -1}, {-2, 1}, {-1, 2}}
var kingD = [8][2]int{{1, 0}, {1, 1}, {0, 1}, {-1, 1}, {-1, 0}, {-1, -1}, {0, -1}, {1, -1}}
var rookD = [4][2]int{{1, 0}, {0, 1}, {-1, 0}, {0, -1}}
var bishopD = [4][2]int{{1, 1}, {-1, 1}, {-1, -1}, {1, -1}}

// attacked tells if sq is attacked by a piece of color by
func (r *refBoard) attacked(sq Square, by Color) bool {
	f, rk := int(sq)&7, int(sq)>>3
	// pawns
	dir := 1
	if by == Black {
		dir = -1
	}
	for _, df := range []int{-1, 1} {
		pf, pr := f+df, rk-dir
		if onBoard(pf, pr) && r.b[sqOf(pf, pr)] == MakePiece(by, Pawn) {
			return true
		}
	}
	for _, d := range knightD {
		if onBoard(f+d[0], rk+d[1]) && r.b[sqOf(f+d[0], rk+d[1])] == MakePiece(by, Knight) {
			return true
		}
	}
	for _, d := range kingD {
		if onBoard(f+d[0], rk+d[1]) && r.b[sqOf(f+d[0], rk+d[1])] == MakePiece(by, King) {
			return true
		}
	}
	for _, d := range rookD {
		for i := 1; onBoard(f+i*d[0], rk+i*d[1]); i++ {
			pc := r.b[sqOf(f+i*d[0], rk+i*d[1])]
			if pc != PieceNone {
				if pc == MakePiece(by, Rook) || pc == MakePiece(by, Queen) {
					return true
				}
				break
			}
		}
	}
	for _, d := range bishopD {
		for i := 1; onBoard(f+i*d[0], rk+i*d[1]); i++ {
			pc := r.b[sqOf(f+i*d[0], rk+i*d[1])]
			if pc != PieceNone {
				if pc == MakePiece(by, Bishop) || pc == MakePiece(by, Queen) {
					return true
				}
				break
			}
		}
	}
	return false
}

func (r *refBoard) kingSq(c Color) Square {
	for sq := SqA1; sq < SqNone; sq++ {
		if r.b[sq] == MakePiece(c, King) {
			return sq
		}
	}
	return SqNone
}

func (r *refBoard) inCheck() bool {
	return r.attacked(r.kingSq(r.stm), r.stm.Flip())
}

// legal returns all legal moves (engine move encoding without sort value)
func (r *refBoard) legal() []Move {
	var res []Move
	us := r.stm
	them := us.Flip()
	try := func(m Move) {
		// make the move on a copy
		c := *r
		from, to := m.From(), m.To()
		pc := c.b[from]
		c.b[from] = PieceNone
		switch m.MoveType() {
		case Normal:
			c.b[to] = pc
		case Promotion:
			c.b[to] = MakePiece(us, m.PromotionType())
		case EnPassant:
			c.b[to] = pc
			if us == White {
				c.b[to-8] = PieceNone
			} else {
				c.b[to+8] = PieceNone
			}
		case Castling:
			c.b[to] = pc
			switch to {
			case SqG1:
				c.b[SqH1] = PieceNone
				c.b[SqF1] = WhiteRook
			case SqC1:
				c.b[SqA1] = PieceNone
				c.b[SqD1] = WhiteRook
			case SqG8:
				c.b[SqH8] = PieceNone
				c.b[SqF8] = BlackRook
			case SqC8:
				c.b[SqA8] = PieceNone
				c.b[SqD8] = BlackRook
			}
		}
		if !c.attacked(c.kingSq(us), them) {
			res = append(res, m)
		}
	}
	for from := SqA1; from < SqNone; from++ {
		pc := r.b[from]
		if pc == PieceNone || pc.ColorOf() != us {
			continue
		}
		f, rk := int(from)&7, int(from)>>3
		switch pc.TypeOf() {
		case Pawn:
			dir, startR, promR := 1, 1, 7
			if us == Black {
				dir, startR, promR = -1, 6, 0
			}
			add := func(to Square) {
				if int(to)>>3 == promR {
					for _, pt := range []PieceType{Queen, Rook, Bishop, Knight} {
						try(CreateMove(from, to, Promotion, pt))
					}
				} else {
					try(CreateMove(from, to, Normal, PtNone))
				}
			}
			if onBoard(f, rk+dir) && r.b[sqOf(f, rk+dir)] == PieceNone {
				add(sqOf(f, rk+dir))
				if rk == startR && r.b[sqOf(f, rk+2*dir)] == PieceNone {
					try(CreateMove(from, sqOf(f, rk+2*dir), Normal, PtNone))
				}
			}
			for _, df := range []int{-1, 1} {
				if !onBoard(f+df, rk+dir) {
					continue
				}
				to := sqOf(f+df, rk+dir)
				if r.b[to] != PieceNone && r.b[to].ColorOf() == them {
					add(to)
				} else if to == r.ep && r.ep != SqNone && r.b[to] == PieceNone &&
					r.b[sqOf(f+df, rk)] == MakePiece(them, Pawn) {
					try(CreateMove(from, to, EnPassant, PtNone))
				}
			}
		case Knight, King:
			ds := knightD
			if pc.TypeOf() == King {
				ds = kingD
			}
			for _, d := range ds {
				if !onBoard(f+d[0], rk+d[1]) {
					continue
				}
				to := sqOf(f+d[0], rk+d[1])
				if r.b[to] == PieceNone || r.b[to].ColorOf() == them {
					try(CreateMove(from, to, Normal, PtNone))
				}
			}
			if pc.TypeOf() == King && !r.attacked(from, them) {
				type cs struct {
					right        CastlingRights
					k, rook      Square
					empty, safe  []Square
					to           Square
				}
				for _, c := range []cs{
					{CastlingWhiteOO, SqE1, SqH1, []Square{SqF1, SqG1}, []Square{SqF1, SqG1}, SqG1},
					{CastlingWhiteOOO, SqE1, SqA1, []Square{SqD1, SqC1, SqB1}, []Square{SqD1, SqC1}, SqC1},
					{CastlingBlackOO, SqE8, SqH8, []Square{SqF8, SqG8}, []Square{SqF8, SqG8}, SqG8},
					{CastlingBlackOOO, SqE8, SqA8, []Square{SqD8, SqC8, SqB8}, []Square{SqD8, SqC8}, SqC8},
				} {
					if !r.cr.Has(c.right) || from != c.k || r.b[c.rook] != MakePiece(us, Rook) {
						continue
					}
					ok := true
					for _, e := range c.empty {
						if r.b[e] != PieceNone {
							ok = false
						}
					}
					for _, e := range c.safe {
						if r.attacked(e, them) {
							ok = false
						}
					}
					if ok {
						try(CreateMove(from, c.to, Castling, PtNone))
					}
				}
			}
		default:
			var ds [][2]int
			if pc.TypeOf() == Rook || pc.TypeOf() == Queen {
				ds = append(ds, rookD[:]...)
			}
			if pc.TypeOf() == Bishop || pc.TypeOf() == Queen {
				ds = append(ds, bishopD[:]...)
			}
			for _, d := range ds {
				for i := 1; onBoard(f+i*d[0], rk+i*d[1]); i++ {
					to := sqOf(f+i*d[0], rk+i*d[1])
					if r.b[to] == PieceNone {
						try(CreateMove(from, to, Normal, PtNone))
						continue
					}
					if r.b[to].ColorOf() == them {
						try(CreateMove(from, to, Normal, PtNone))
					}
					break
				}
			}
		}
	}
	return res
}

func sortedUci(ms []Move) []string {
	var s []string
	for _, m := range ms {
		s = append(s, m.StringUci()+m.MoveType().String())
	}
	sort.Strings(s)
	return s
}

func eqStr(a, b []string) bool {
	if len(a) != len(b) {
		return false
	}
	for i := range a {
		if a[i] != b[i] {
			return false
		}
	}
	return true
}

// collects the legal moves the way search()/qsearch() do: on demand
// generation with the evasion flag, DoMove, WasLegalMove
func onDemandLegal(mg *Movegen, p *position.Position, mode GenMode, pv Move, k1, k2 Move) []Move {
	mg.ResetOnDemand()
	mg.killerMoves[0] = k1
	mg.killerMoves[1] = k2
	if pv != MoveNone {
		mg.SetPvMove(pv)
	}
	hasCheck := p.HasCheck()
	var res []Move
	seen := map[Move]bool{}
	for m := mg.GetNextMove(p, mode, hasCheck); m != MoveNone; m = mg.GetNextMove(p, mode, hasCheck) {
		p.DoMove(m)
		if p.WasLegalMove() && !seen[m] {
			res = append(res, m)
			seen[m] = true
		}
		p.UndoMove()
	}
	return res
}

var auditFens = []string{
	position.StartFen,
	"r3k2r/p1ppqpb1/bn2pnp1/3PN3/1p2P3/2N2Q1p/PPPBBPPP/R3K2R w KQkq - 0 1",
	"8/2p5/3p4/KP5r/1R3p1k/8/4P1P1/8 w - - 0 1",
	"r3k2r/Pppp1ppp/1b3nbN/nP6/BBP1P3/q4N2/Pp1P2PP/R2Q1RK1 w kq - 0 1",
	"rnbq1k1r/pp1Pbppp/2p5/8/2B5/8/PPP1NnPP/RNBQK2R w KQ - 1 8",
	"r4rk1/1pp1qppp/p1np1n2/2b1p1B1/2B1P1b1/P1NP1N2/1PP1QPPP/R4RK1 w - - 0 10",
	"8/P1k5/8/8/8/8/5K1p/8 w - - 0 1",
	"4k3/1P4P1/8/8/8/8/1p4p1/4K3 w - - 0 1",
	"8/8/8/1k1pP3/8/8/8/4K2R w K d6 0 1",
	"4k3/8/8/2pPp3/8/8/8/R3K2R w KQ c6 0 1",
	"rnbqkbnr/1ppppppp/8/8/pPP5/8/P2PPPPP/RNBQKBNR b KQkq b3 0 3",
	"8/8/3k4/8/2pP4/8/B7/4K3 b - d3 0 1",
	"8/8/8/8/k2Pp2Q/8/8/4K3 b - d3 0 1",
	"2r3k1/8/8/8/8/8/8/R3K2R w KQ - 0 1",
	"6k1/8/8/8/8/8/8/R3K2r w Q - 0 1",
}

// Differential test: "the side to move has no legal move" must mean the same
// for the reference generator, the root move list (GenerateLegalMoves), the
// on demand generator used in search/qsearch (with evasion flag, pv move and killers).
// This harness PASSES on the current code - it is evidence, not a finding.
func TestZZHarness_MoveGenDifferential(t *testing.T) {
	rnd := rand.New(rand.NewSource(20261001))
	mg := NewMoveGen()
	mg2 := NewMoveGen()
	positions, terminals, fails := 0, 0, 0
	for _, promNQ := range []bool{true, false} {
		config.Settings.Search.UsePromNonQuiet = promNQ
		for game := 0; game < 1500 && fails < 10; game++ {
			fen := auditFens[game%len(auditFens)]
			p, err := position.NewPositionFen(fen)
			if err != nil {
				t.Fatal(err)
			}
			var lastK1, lastK2 Move
			for ply := 0; ply < 120; ply++ {
				positions++
				ref := refFrom(p)
				refMoves := ref.legal()
				refS := sortedUci(refMoves)
				// check flag
				if ref.inCheck() != p.HasCheck() {
					t.Errorf("HasCheck differs on %s: ref %v engine %v", p.StringFen(), ref.inCheck(), p.HasCheck())
					fails++
				}
				// root list
				gl := mg.GenerateLegalMoves(p, GenAll)
				var glm []Move
				for _, m := range *gl {
					glm = append(glm, m.MoveOf())
				}
				if !eqStr(refS, sortedUci(glm)) {
					t.Errorf("GenerateLegalMoves differs on %s:\n ref %v\n eng %v", p.StringFen(), refS, sortedUci(glm))
					fails++
				}
				// (HasLegalMove is not compared here: it is only used by perft and
				// misses quiet promotions - see zz_audit_3_test.go)
				// on demand as used in search - with arbitrary pv and killers
				pv := MoveNone
				if len(refMoves) > 0 && rnd.Intn(2) == 0 {
					pv = refMoves[rnd.Intn(len(refMoves))]
				}
				od := onDemandLegal(mg2, p, GenAll, pv, lastK1, lastK2)
				if !eqStr(refS, sortedUci(od)) {
					t.Errorf("on demand generation (pv %s, killers %s %s, promNQ %v) differs on %s:\n ref %v\n eng %v",
						pv.StringUci(), lastK1.StringUci(), lastK2.StringUci(), promNQ, p.StringFen(), refS, sortedUci(od))
					fails++
				}
				if len(refMoves) == 0 {
					terminals++
					break
				}
				// prefer checking moves to get many evasion positions
				var next Move
				var checks []Move
				for _, m := range refMoves {
					if p.GivesCheck(m) {
						checks = append(checks, m)
					}
				}
				if len(checks) > 0 && rnd.Intn(3) > 0 {
					next = checks[rnd.Intn(len(checks))]
				} else {
					next = refMoves[rnd.Intn(len(refMoves))]
				}
				lastK2 = lastK1
				lastK1 = refMoves[rnd.Intn(len(refMoves))]
				p.DoMove(next)
				if p.HalfMoveClock() >= 100 {
					break
				}
			}
		}
	}
	t.Logf("positions %d terminals %d", positions, terminals)
}

package movegen

import (
	"testing"

	"github.com/frankkopp/FrankyGo/internal/position"
)

// Out of scope for C07 (HasLegalMove is only used by perft to count mates),
// recorded as an observation: HasLegalMove does not look at pawn pushes to
// the promotion rank. Black's only legal moves here are e2e1=Q/R/B/N.
func TestZZAudit3_HasLegalMoveMissesQuietPromotions(t *testing.T) {
	mg := NewMoveGen()
	p, _ := position.NewPositionFen("1k6/1P6/1K6/6P1/8/8/4p3/8 b - - 1 29")
	n := mg.GenerateLegalMoves(p, GenAll).Len()
	if n == 0 {
		t.Fatal("setup")
	}
	if !mg.HasLegalMove(p) {
		t.Errorf("HasLegalMove reports no legal move on %s - there are %d (%s)", p.StringFen(), n, mg.GenerateLegalMoves(p, GenAll).StringUci())
	}
}

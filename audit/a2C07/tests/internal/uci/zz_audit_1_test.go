package uci

import (
	"bufio"
	"bytes"
	"testing"

	. "github.com/frankkopp/FrankyGo/internal/types"
)

// Property C07 (converse clause) end to end over UCI: the game
//   position fen 8/8/8/8/8/6k1/r7/7K w - - 98 120 moves h1g1 a2a1
// ends with Ra1# - white is checkmated, the mating move happens to be the
// 100th reversible half move. "go" on this root must report a mate
// (value -mate), the engine reports a draw by the 50-moves-rule.
func TestZZAudit1_UciRootMateOn100thHalfMove(t *testing.T) {
	uh := NewUciHandler()
	buffer := new(bytes.Buffer)
	uh.OutIo = bufio.NewWriter(buffer)
	uh.handleReceivedCommand("setoption name Use_Book value false")
	for _, tc := range []struct {
		cmd string
	}{
		{"position fen 8/8/8/8/8/6k1/r7/7K w - - 97 120 moves h1g1 a2a1"}, // control: clock 99 at the mate
		{"position fen 8/8/8/8/8/6k1/r7/7K w - - 98 120 moves h1g1 a2a1"}, // clock 100 at the mate
	} {
		uh.handleReceivedCommand(tc.cmd)
		if !uh.myPosition.HasCheck() || uh.myMoveGen.GenerateLegalMoves(uh.myPosition, 3).Len() != 0 {
			t.Fatalf("test setup: %s is not a mate", uh.myPosition.StringFen())
		}
		uh.handleReceivedCommand("go depth 3")
		uh.mySearch.WaitWhileSearching()
		r := uh.mySearch.LastSearchResult()
		_ = uh.OutIo.Flush()
		t.Logf("%s\n root %s -> value %d (%s), checkmates counted %d\n uci output: %q", tc.cmd, uh.myPosition.StringFen(),
			r.BestValue, r.BestValue.String(), uh.mySearch.Statistics().Checkmates, buffer.String())
		buffer.Reset()
		if r.BestValue != -ValueCheckMate {
			t.Errorf("root %s is checkmate but is reported with value %d (%s) instead of %d",
				uh.myPosition.StringFen(), r.BestValue, r.BestValue.String(), -ValueCheckMate)
		}
	}
}

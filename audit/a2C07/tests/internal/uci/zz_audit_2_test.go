package uci

import (
	"bufio"
	"bytes"
	"strings"
	"testing"
)

// see internal/search/zz_audit_2_test.go - the same over UCI: the position is
// accepted by the position command and "go depth 1" prints "score mate 1" with
// the pv g5e4 - a move which does not mate.
func TestZZAudit2_UciAnnouncesMateWithNonMatingMove(t *testing.T) {
	uh := NewUciHandler()
	buffer := new(bytes.Buffer)
	uh.OutIo = bufio.NewWriter(buffer)
	uh.handleReceivedCommand("setoption name Use_Book value false")
	uh.handleReceivedCommand("position fen 1QQ2B2/3KQ3/Q4Q2/6N1/5RQ1/3Q4/7k/QRQ1N3 w - - 0 1")
	if !strings.HasPrefix(uh.myPosition.StringFen(), "1QQ2B2/3KQ3") {
		t.Fatal("position not accepted")
	}
	uh.handleReceivedCommand("go depth 1")
	uh.mySearch.WaitWhileSearching()
	_ = uh.OutIo.Flush()
	out := buffer.String()
	t.Logf("uci output:\n%s", out)
	r := uh.mySearch.LastSearchResult()
	uh.myPosition.DoMove(r.BestMove)
	n := uh.myMoveGen.GenerateLegalMoves(uh.myPosition, 3).Len()
	if strings.Contains(out, "score mate 1 ") && n > 0 {
		t.Errorf("engine prints 'score mate 1' for %s but afterwards the opponent has %d legal moves (in check: %v)",
			r.BestMove.StringUci(), n, uh.myPosition.HasCheck())
	}
}

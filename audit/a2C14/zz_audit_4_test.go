package movegen

// AUDIT C14 - perft start/stop as the protocol loop drives it
//   uci.go perftCommand:  go u.myPerft.StartPerftMulti(position.StartFen, depth, depth2, true)
//   uci.go stopCommand :  u.myPerft.Stop()
//
// run (lost stop / corrupted counters, no race detector needed):
//   go test -run 'TestZZAudit4' -count=1 ./internal/movegen/
// run (additionally reports the data races on the plain bool perft.go:62 <-> :69/:71/:83 and on the counters):
//   go test -race -run 'TestZZAudit4' -count=1 ./internal/movegen/

import (
	"testing"
	"time"

	"github.com/frankkopp/FrankyGo/internal/position"
)

// "perft 5" immediately followed by "stop": Stop() sets the flag, then the perft
// goroutine starts and resets it (StartPerftMulti line 69, StartPerft line 83)
// -> the stop request is lost, the perft runs to its end.
func TestZZAudit4_StopRightAfterStartIsLost(t *testing.T) {
	pf := NewPerft()
	done := make(chan struct{})
	start := time.Now()
	go func() { // == perftCommand
		pf.StartPerftMulti(position.StartFen, 5, 5, true)
		close(done)
	}()
	pf.Stop() // == stopCommand
	<-done
	// a stopped perft leaves Nodes == 0 (StartPerft returns before setting it)
	if pf.Nodes != 0 {
		t.Fatalf("stop request issued right after the start was lost: perft ran to its end after %s with %d nodes",
			time.Since(start), pf.Nodes)
	}
}

// "perft 4" twice: there is no running state for perft - the second start is not rejected,
// both goroutines share the counters of the one Perft instance of the uci handler.
func TestZZAudit4_TwoPerftCommands(t *testing.T) {
	pf := NewPerft()
	done := make(chan struct{}, 2)
	for i := 0; i < 2; i++ {
		go func() {
			pf.StartPerftMulti(position.StartFen, 4, 4, true)
			done <- struct{}{}
		}()
	}
	<-done
	<-done
	if pf.Nodes != 197281 || pf.CaptureCounter != 1576 || pf.CheckCounter != 469 {
		t.Fatalf("perft 4 results corrupted by the second perft: nodes %d (197281) captures %d (1576) checks %d (469)",
			pf.Nodes, pf.CaptureCounter, pf.CheckCounter)
	}
}

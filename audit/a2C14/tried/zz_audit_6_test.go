package search

// AUDIT C14 - exploratory (passes): a ponder search is not answered by leftovers of the previous search
// run: go test -race -run 'TestZZAudit6' -count=1 ./internal/search/

import (
	"sync/atomic"
	"testing"
	"time"

	"github.com/frankkopp/FrankyGo/internal/position"
)

func TestZZAudit6_PonderIsolation(t *testing.T) {
	s := NewSearch()
	d := &auditDriver{}
	s.SetUciHandler(d)
	s.IsReady()
	p := position.NewPosition()
	for i := 0; i < 40; i++ {
		before := atomic.LoadInt64(&d.results)
		switch i % 4 {
		case 0: // timed search ended by its timer, timer may still poll
			s.StartSearch(*p, Limits{TimeControl: true, MoveTime: 25 * time.Millisecond})
			s.WaitWhileSearching()
		case 1: // timed search ended by stop, late second stop
			s.StartSearch(*p, Limits{TimeControl: true, WhiteTime: time.Minute, BlackTime: time.Minute})
			time.Sleep(time.Duration(i%7) * time.Millisecond)
			s.StopSearch()
			s.StopSearch()
		case 2: // ponder + ponderhit + timer
			s.StartSearch(*p, Limits{Ponder: true, TimeControl: true, WhiteTime: 300 * time.Millisecond, BlackTime: 300 * time.Millisecond})
			s.PonderHit()
			s.PonderHit()
			s.WaitWhileSearching()
		case 3: // depth search finishing by itself, late stop
			s.StartSearch(*p, Limits{Depth: 2})
			s.WaitWhileSearching()
			s.StopSearch()
		}
		if got := atomic.LoadInt64(&d.results) - before; got != 1 {
			t.Fatalf("round %d: %d results", i, got)
		}
		time.Sleep(time.Duration(i%6) * time.Millisecond)
		s.StartSearch(*p, Limits{Ponder: true, TimeControl: true, WhiteTime: 100 * time.Millisecond, BlackTime: 100 * time.Millisecond})
		time.Sleep(150 * time.Millisecond)
		if got := atomic.LoadInt64(&d.results) - before; got != 1 {
			t.Fatalf("round %d: ponder search answered without ponderhit/stop", i)
		}
		if !s.IsSearching() {
			t.Fatalf("round %d: ponder search ended", i)
		}
		s.StopSearch()
		if got := atomic.LoadInt64(&d.results) - before; got != 2 {
			t.Fatalf("round %d: %d results after stop of ponder search", i, got)
		}
	}
}

package search

// AUDIT C14 - exploratory stress test of the search lifecycle under the race detector.
// run: go test -race -run 'TestZZAudit1' -count=1 ./internal/search/

import (
	"math/rand"
	"sync"
	"sync/atomic"
	"testing"
	"time"

	"github.com/frankkopp/FrankyGo/internal/moveslice"
	"github.com/frankkopp/FrankyGo/internal/position"
	"github.com/frankkopp/FrankyGo/internal/types"
)

type auditDriver struct {
	mu      sync.Mutex
	results int64
	ready   int64
	infos   []string
}

func (d *auditDriver) SendReadyOk() { atomic.AddInt64(&d.ready, 1) }
func (d *auditDriver) SendInfoString(info string) {
	d.mu.Lock()
	d.infos = append(d.infos, info)
	d.mu.Unlock()
}
func (d *auditDriver) SendIterationEndInfo(depth int, seldepth int, value types.Value, nodes uint64, nps uint64, time time.Duration, pv moveslice.MoveSlice) {
}
func (d *auditDriver) SendAspirationResearchInfo(depth int, seldepth int, value types.Value, bound string, nodes uint64, nps uint64, time time.Duration, pv moveslice.MoveSlice) {
}
func (d *auditDriver) SendCurrentRootMove(currMove types.Move, moveNumber int) {}
func (d *auditDriver) SendSearchUpdate(depth int, seldepth int, nodes uint64, nps uint64, time time.Duration, hashfull int) {
}
func (d *auditDriver) SendCurrentLine(moveList moveslice.MoveSlice)        {}
func (d *auditDriver) SendResult(bestMove types.Move, ponderMove types.Move) { atomic.AddInt64(&d.results, 1) }

func TestZZAudit1_Stress(t *testing.T) {
	s := NewSearch()
	d := &auditDriver{}
	s.SetUciHandler(d)
	s.IsReady()
	rnd := rand.New(rand.NewSource(4711))
	p := position.NewPosition()
	accepted := int64(0)

	limits := []Limits{
		{Infinite: true},
		{Ponder: true, TimeControl: true, WhiteTime: 200 * time.Millisecond, BlackTime: 200 * time.Millisecond},
		{Ponder: true, Depth: 2},
		{TimeControl: true, MoveTime: 30 * time.Millisecond},
		{TimeControl: true, WhiteTime: 300 * time.Millisecond, BlackTime: 300 * time.Millisecond},
		{Depth: 3},
		{Nodes: 5000},
	}

	deadline := time.Now().Add(20 * time.Second)
	for time.Now().Before(deadline) {
		done := make(chan struct{})
		var op int
		go func() {
			defer close(done)
			op = rnd.Intn(9)
			switch op {
			case 0, 1, 2:
				before := atomic.LoadUint64(&s.searchCounter)
				s.StartSearch(*p, limits[rnd.Intn(len(limits))])
				if atomic.LoadUint64(&s.searchCounter) != before {
					accepted++
				}
			case 3:
				s.StopSearch()
			case 4:
				s.PonderHit()
			case 5:
				s.IsReady()
			case 6:
				s.ClearHash()
			case 7:
				s.NewGame()
			case 8:
				time.Sleep(time.Duration(rnd.Intn(12)) * time.Millisecond)
			}
		}()
		select {
		case <-done:
		case <-time.After(10 * time.Second):
			t.Fatalf("controller blocked in op %d", op)
		}
	}
	s.StopSearch()
	time.Sleep(50 * time.Millisecond)
	if r := atomic.LoadInt64(&d.results); r != accepted {
		t.Errorf("accepted starts %d but results %d", accepted, r)
	}
}

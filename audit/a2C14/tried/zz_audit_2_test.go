package uci

// AUDIT C14 - exploratory: drive the real protocol loop through a pipe under the race detector.
// run: go test -race -run 'TestZZAudit2' -count=1 ./internal/uci/

import (
	"bufio"
	"io"
	"math/rand"
	"strings"
	"sync"
	"testing"
	"time"
)

type auditSyncWriter struct {
	mu    sync.Mutex
	lines []string
	buf   strings.Builder
}

func (w *auditSyncWriter) Write(p []byte) (int, error) {
	w.mu.Lock()
	defer w.mu.Unlock()
	w.buf.Write(p)
	for {
		s := w.buf.String()
		i := strings.IndexByte(s, '\n')
		if i < 0 {
			break
		}
		w.lines = append(w.lines, s[:i])
		w.buf.Reset()
		w.buf.WriteString(s[i+1:])
	}
	return len(p), nil
}

func (w *auditSyncWriter) count(prefix string) int {
	w.mu.Lock()
	defer w.mu.Unlock()
	n := 0
	for _, l := range w.lines {
		if strings.HasPrefix(l, prefix) {
			n++
		}
	}
	return n
}

func TestZZAudit2_LoopStress(t *testing.T) {
	u := NewUciHandler()
	pr, pw := io.Pipe()
	w := &auditSyncWriter{}
	u.InIo = bufio.NewScanner(pr)
	u.OutIo = bufio.NewWriter(w)
	loopDone := make(chan struct{})
	go func() { u.Loop(); close(loopDone) }()

	send := func(s string) {
		done := make(chan struct{})
		go func() { _, _ = pw.Write([]byte(s + "\n")); close(done) }()
		select {
		case <-done:
		case <-time.After(15 * time.Second):
			t.Fatalf("loop does not read any more - blocked before '%s'", s)
		}
	}

	cmds := []string{
		"go infinite", "go ponder wtime 300 btime 300", "go movetime 30", "go wtime 200 btime 200", "go depth 3",
		"go ponder depth 2", "go nodes 3000",
		"stop", "stop", "ponderhit", "ponderhit", "isready", "ucinewgame", "setoption name Clear Hash",
		"setoption name Hash value 16", "position startpos moves e2e4 e7e5", "position startpos",
	}
	rnd := rand.New(rand.NewSource(99))
	send("uci")
	send("isready")
	deadline := time.Now().Add(20 * time.Second)
	for time.Now().Before(deadline) {
		send(cmds[rnd.Intn(len(cmds))])
		if rnd.Intn(3) == 0 {
			time.Sleep(time.Duration(rnd.Intn(8)) * time.Millisecond)
		}
	}
	send("stop")
	send("isready")
	send("quit")
	select {
	case <-loopDone:
	case <-time.After(15 * time.Second):
		t.Fatalf("loop did not end")
	}
	t.Logf("bestmoves: %d readyok: %d", w.count("bestmove"), w.count("readyok"))
}

package search

// AUDIT C14 - resize-hash on a Search without uci handler (documented as allowed: output goes to the log)
// run: go test -race -run 'TestZZAudit3' -count=1 ./internal/search/

import (
	"testing"
	"time"

	"github.com/frankkopp/FrankyGo/internal/position"
)

// resize-hash while idle, no uci handler set
func TestZZAudit3_ResizeNoHandlerIdle(t *testing.T) {
	s := NewSearch() // "If the given uci handler is nil all output will be sent to Stdout"
	s.IsReady()      // works without handler
	s.ClearHash()    // works without handler
	defer func() {
		if r := recover(); r != nil {
			t.Fatalf("ResizeCache without uci handler panics: %v", r)
		}
	}()
	s.ResizeCache()
}

// resize-hash while searching, no uci handler set
func TestZZAudit3_ResizeNoHandlerSearching(t *testing.T) {
	s := NewSearch()
	s.StartSearch(*position.NewPosition(), Limits{Infinite: true})
	defer func() {
		r := recover()
		s.StopSearch()
		if r != nil {
			t.Fatalf("ResizeCache during search without uci handler panics: %v", r)
		}
	}()
	time.Sleep(20 * time.Millisecond)
	s.ClearHash() // fine: guarded by sendInfoStringToUci
	s.ResizeCache()
}

package uci

// AUDIT C14 - "perft" + "stop" through the protocol handler (same entry point the loop uses)
//
// run (data race Stop() <-> perft goroutine):
//   go test -race -run 'TestZZAudit5_PerftStopRace' -count=1 ./internal/uci/
// run (lost stop request; run WITHOUT -race as the test itself peeks at the perft result):
//   go test -run 'TestZZAudit5_PerftStopLost' -count=1 ./internal/uci/

import (
	"testing"
	"time"
)

func TestZZAudit5_PerftStopRace(t *testing.T) {
	u := NewUciHandler()
	u.handleReceivedCommand("perft 4")
	u.handleReceivedCommand("stop")
	time.Sleep(3 * time.Second)
	u.handleReceivedCommand("stop")
	time.Sleep(500 * time.Millisecond)
}

func TestZZAudit5_PerftStopLost(t *testing.T) {
	u := NewUciHandler()
	u.handleReceivedCommand("perft 5")
	u.handleReceivedCommand("stop") // GUI changes its mind at once (or both lines arrive in one write)
	time.Sleep(200 * time.Millisecond)
	// a perft which honoured the stop has ended long ago and left Nodes == 0
	deadline := time.Now().Add(30 * time.Second)
	for time.Now().Before(deadline) {
		if u.myPerft.Nodes != 0 {
			t.Fatalf("'stop' sent right after 'perft 5' was lost: the perft ran to its end (%d nodes)", u.myPerft.Nodes)
		}
		time.Sleep(100 * time.Millisecond)
	}
}

package uci

// AUDIT C14 - borderline / (b): "isready" during a search creates the transposition table in the
// controller goroutine when Use_Hash has been switched on during the search (setoption during a
// search is not foreseen by the UCI protocol, the engine does not reject it however).
// run: go test -race -run 'TestZZAudit7' -count=1 ./internal/uci/

import (
	"testing"
	"time"

	"github.com/frankkopp/FrankyGo/internal/config"
)

func TestZZAudit7_IsReadyCreatesTTDuringSearch(t *testing.T) {
	defer func() { config.Settings.Search.UseTT = true }()
	u := NewUciHandler()
	u.handleReceivedCommand("setoption name Use_Hash value false")
	u.handleReceivedCommand("go infinite")
	time.Sleep(100 * time.Millisecond)
	u.handleReceivedCommand("setoption name Use_Hash value true")
	u.handleReceivedCommand("isready") // Search.initialize() writes s.tt - the search reads it in useTT()
	time.Sleep(300 * time.Millisecond)
	u.handleReceivedCommand("stop")
}

package uci

// Run (from the repository root, needs zz_audit_0_test.go in the same package):
//   export GOFLAGS=-mod=mod GOPROXY=off GOSUMDB=off
//   go test ./internal/uci/ -run 'TestAudit4_' -count=1 -v

import (
	"testing"
	"time"

	"github.com/frankkopp/FrankyGo/internal/config"
)

// C13 - "with a searchmoves list the best move is one of the listed moves".
//
// The searchmoves filter lives in iterativeDeepening() only. With a time
// control and an opening book the search is bypassed and a random book move
// is answered - the searchmoves list is never looked at.
//
// (assets/books/book.txt is empty in this checkout therefore the test uses
// the book assets/books/book_smalltest.txt which ships with the engine -
// same as starting the engine with "-bookfile book_smalltest.txt")
func TestAudit4_BookMoveIgnoresSearchmoves(t *testing.T) {
	oldFile, oldUse := config.Settings.Search.BookFile, config.Settings.Search.UseBook
	config.Settings.Search.BookFile = "book_smalltest.txt"
	config.Settings.Search.UseBook = true
	defer func() {
		config.Settings.Search.BookFile, config.Settings.Search.UseBook = oldFile, oldUse
	}()

	e := newAuditEngine()
	e.cmd("isready")
	violations := 0
	for _, goCmd := range []string{
		"go wtime 60000 btime 60000 searchmoves a2a3 h2h3",
		"go movetime 200 searchmoves a2a3 h2h3",
		"go searchmoves a2a3 h2h3 wtime 60000 btime 60000 winc 1000 binc 1000 movestogo 20",
	} {
		e.cmd("ucinewgame")
		e.cmd("position startpos")
		line, _, ok := e.goAndWait(goCmd, 60*time.Second)
		if !ok {
			t.Fatalf("%s: no bestmove", goCmd)
		}
		bm := bestMoveOf(line)
		t.Logf("%-90s -> %s (book move: %v)", goCmd, line, e.u.mySearch.LastSearchResult().BookMove)
		if bm != "a2a3" && bm != "h2h3" {
			violations++
			t.Errorf("%s: best move %s is not one of the listed moves", goCmd, bm)
		}
	}
}

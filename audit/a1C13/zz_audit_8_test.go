package uci

// Run (from the repository root, needs zz_audit_0_test.go in the same package):
//   export GOFLAGS=-mod=mod GOPROXY=off GOSUMDB=off
//   go test ./internal/uci/ -run 'TestAudit8_' -count=1 -v

import (
	"testing"
	"time"

	"github.com/frankkopp/FrankyGo/internal/config"
)

// C13 - "the time allotted to a move ..., repeated for the announced
// moves-to-go ..., fits into the remaining time plus the increments".
//
// The first search after a book move doubles the budget (addExtraTime(2.0)).
// 10 s on the clock, 10 moves to go, no increment: the allotted time is
// 2 * 0.9 * 1 s = 1.8 s; repeated for the 10 announced moves = 18 s > 10 s.
// (literal violation - happens once per game, the 0.9*clock clamp holds)
func TestAudit8_ExtraTimeAfterBookDoublesBudget(t *testing.T) {
	oldFile, oldUse := config.Settings.Search.BookFile, config.Settings.Search.UseBook
	config.Settings.Search.BookFile = "book_smalltest.txt"
	config.Settings.Search.UseBook = true
	defer func() {
		config.Settings.Search.BookFile, config.Settings.Search.UseBook = oldFile, oldUse
	}()

	e := newAuditEngine()
	e.cmd("isready")
	e.cmd("ucinewgame")
	e.cmd("position startpos")
	line, _, _ := e.goAndWait("go wtime 10000 btime 10000 movestogo 11", 30*time.Second)
	if !e.u.mySearch.LastSearchResult().BookMove {
		t.Fatalf("precondition failed: expected a book move, got %s", line)
	}
	// out of book
	e.cmd("position fen r3k2r/p1ppqpb1/bn2pnp1/3PN3/1p2P3/2N2Q1p/PPPBBPPP/R3K2R w KQkq - 0 1")
	line, elapsed, ok := e.goAndWait("go wtime 10000 btime 10000 movestogo 10", 30*time.Second)
	t.Logf("%q after %v (book move %v)", line, elapsed, e.u.mySearch.LastSearchResult().BookMove)
	if !ok {
		t.Fatalf("no bestmove")
	}
	// fair share: (remaining + movestogo*inc) / movestogo = 1 s
	if elapsed > 1100*time.Millisecond {
		t.Errorf("10 s for 10 moves: this move took %v - repeated for 10 moves = %v > 10 s", elapsed, 10*elapsed)
	}
}

package uci

// Run (from the repository root, needs zz_audit_0_test.go in the same package):
//   export GOFLAGS=-mod=mod GOPROXY=off GOSUMDB=off
//   go test ./internal/uci/ -run 'TestAudit3_' -count=1 -v

import (
	"testing"
	"time"
)

// C13 - fixed move time / clock budget are measured from the wrong instant.
//
// run() does the (possibly expensive) lazy initialization s.initialize()
// BEFORE the timer is started and the timer goroutine measures from its own
// start (timerStart) instead of from the start of the search (s.startTime).
// Everything which is initialized lazily is therefore added on top of the
// move time. History (all values inside the announced ranges):
//
//	setoption name Use_Hash value false
//	setoption name Hash value 4096      (no table is built as TT is off)
//	setoption name Use_Hash value true  (only sets the flag)
//	go movetime 100                     (builds the 4 GB table, THEN starts the timer)
//
// needs about 4 GB of RAM
func TestAudit3_LazyInitNotCountedAgainstMoveTime(t *testing.T) {
	e := newAuditEngine()
	e.cmd("setoption name Use_Book value false")
	e.cmd("isready")
	e.cmd("position startpos moves e2e4 e7e5 g1f3 b8c6")
	e.cmd("setoption name Use_Hash value false")
	e.cmd("setoption name Hash value 4096")
	e.cmd("setoption name Use_Hash value true")
	defer e.cmd("setoption name Hash value 256")

	line, elapsed, ok := e.goAndWait("go movetime 100", 60*time.Second)
	t.Logf("%q after %v", line, elapsed)
	if !ok {
		t.Fatalf("no bestmove")
	}
	if elapsed > 200*time.Millisecond {
		t.Errorf("go movetime 100 answered after %v (allowance of 100 ms already included)", elapsed)
	}
}

package uci

// Run (from the repository root, needs zz_audit_0_test.go in the same package):
//   export GOFLAGS=-mod=mod GOPROXY=off GOSUMDB=off
//   go test ./internal/uci/ -run 'TestAudit5_' -count=1 -v

import (
	"testing"
	"time"
)

// C13 - "A depth-limited search completes exactly that many iterations
// unless the root is terminal or has a single legal move".
//
// go depth 6 searchmoves e2e4 (the typical "what is e2e4 worth at depth 6"
// analysis request). The root (start position) has 20 legal moves and is
// not terminal. After filtering the root moves down to the listed move the
// iterative deepening loop treats the search like a forced move and stops
// after iteration 1 - the answer is a depth 1 result.
func TestAudit5_DepthWithSingleSearchmoveStopsAfterFirstIteration(t *testing.T) {
	e := newAuditEngine()
	e.cmd("setoption name Use_Book value false")
	e.cmd("isready")
	e.cmd("ucinewgame")
	e.cmd("position startpos")
	line, elapsed, ok := e.goAndWait("go depth 6 searchmoves e2e4", 120*time.Second)
	if !ok {
		t.Fatalf("no bestmove")
	}
	r := e.u.mySearch.LastSearchResult()
	t.Logf("%q after %v, iterations %d", line, elapsed, r.SearchDepth)
	if bestMoveOf(line) != "e2e4" {
		t.Errorf("best move %s not the listed move", bestMoveOf(line))
	}
	if r.SearchDepth != 6 {
		t.Errorf("go depth 6 searchmoves e2e4: %d iteration(s) completed instead of 6", r.SearchDepth)
	}

	// two listed moves: 6 iterations
	e.cmd("ucinewgame")
	e.cmd("position startpos")
	_, _, _ = e.goAndWait("go depth 6 searchmoves e2e4 d2d4", 120*time.Second)
	if d := e.u.mySearch.LastSearchResult().SearchDepth; d != 6 {
		t.Fatalf("control failed: %d iterations", d)
	}
}

package uci

// Run (from the repository root, needs zz_audit_0_test.go in the same package):
//   export GOFLAGS=-mod=mod GOPROXY=off GOSUMDB=off
//   go test ./internal/uci/ -run 'TestAudit1_' -count=1 -v

import (
	"testing"
	"time"
)

// C13 - "A depth-limited search completes exactly that many iterations
// unless the root is terminal or has a single legal move".
//
// History: go ponder depth 9  ...  ponderhit
// ponderhit turns the ponder search into a normal search - here a normal
// depth 9 search without any time control. PonderHit() starts the timer
// unconditionally; without time control the published limit is 0 so the
// timer fires at once and the search is aborted after the iterations it
// happened to have finished during pondering.
func TestAudit1_PonderhitAbortsDepthLimitedSearch(t *testing.T) {
	e := newAuditEngine()
	e.cmd("setoption name Use_Book value false")
	e.cmd("isready")
	e.cmd("ucinewgame")
	e.cmd("position startpos moves e2e4 e7e5")
	e.buf.Reset()
	start := time.Now()
	e.cmd("go ponder depth 9")
	time.Sleep(20 * time.Millisecond) // opponent plays the expected move
	e.cmd("ponderhit")
	line, ok := e.waitBest(start, 120*time.Second)
	e.u.mySearch.WaitWhileSearching()
	if !ok {
		t.Fatalf("no bestmove after ponderhit")
	}
	r := e.u.mySearch.LastSearchResult()
	t.Logf("%s after %v - iterations completed: %d", line, time.Since(start), r.SearchDepth)
	if r.SearchDepth != 9 {
		t.Errorf("go ponder depth 9 + ponderhit: search was depth limited to 9 (no time control) "+
			"but stopped after iteration %d", r.SearchDepth)
	}

	// control: same search without ponder completes 9 iterations
	e.cmd("ucinewgame")
	e.cmd("position startpos moves e2e4 e7e5")
	_, _, ok = e.goAndWait("go depth 9", 120*time.Second)
	r = e.u.mySearch.LastSearchResult()
	if !ok || r.SearchDepth != 9 {
		t.Fatalf("control failed: go depth 9 gave %d iterations", r.SearchDepth)
	}
}

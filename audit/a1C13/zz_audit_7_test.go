package uci

// Run (from the repository root, needs zz_audit_0_test.go in the same package):
//   export GOFLAGS=-mod=mod GOPROXY=off GOSUMDB=off
//   go test ./internal/uci/ -run 'TestAudit7_' -count=1 -v

import (
	"testing"
	"time"
)

// C13 - very short limits ("remaining times from milliseconds").
//
// a) clock: the budget is 0.8 * remaining time but the search has a fixed
// cost per search (129 move generators and pv lists are allocated in
// run() for every search, log output, 5 ms timer polling) which is not part of the
// budget. With 10 .. 40 ms on the clock and a large increment (the low-time /
// large-increment case: budget = 0.8 * clock) the answer arrives after the
// flag has fallen (measured: fixed cost 13-20 ms per search, also with the
// log level reduced to warning).
// b) movetime < 20 ms gets no safety margin at all (setupTimeControl returns
// the full move time) and is overrun by a multiple of the move time.
func TestAudit7_TinyLimitsOverrun(t *testing.T) {
	e := newAuditEngine()
	e.cmd("setoption name Use_Book value false")
	e.cmd("isready")
	e.cmd("ucinewgame")
	e.cmd("position startpos moves e2e4 e7e5 g1f3 b8c6")
	// warm up
	e.goAndWait("go movetime 200", 10*time.Second)

	type tc struct {
		goCmd    string
		max      time.Duration
		infoOnly bool // borderline cases (depend on the machine) are logged only
	}
	for _, c := range []tc{
		{"go wtime 10 btime 10 winc 1000 binc 1000", 10 * time.Millisecond, false},
		{"go wtime 12 btime 12 movestogo 1", 12 * time.Millisecond, false},
		{"go wtime 40 btime 40 winc 5000 binc 5000", 40 * time.Millisecond, true},
		{"go movetime 2", 2*time.Millisecond + 10*time.Millisecond, false},
		{"go movetime 10", 10*time.Millisecond + 10*time.Millisecond, true},
	} {
		over := 0
		const runs = 7
		var seen []time.Duration
		for i := 0; i < runs; i++ {
			_, elapsed, ok := e.goAndWait(c.goCmd, 10*time.Second)
			if !ok {
				t.Fatalf("%s: no bestmove", c.goCmd)
			}
			seen = append(seen, elapsed)
			if elapsed > c.max {
				over++
			}
		}
		t.Logf("%-45s limit %v: late in %d of %d runs: %v", c.goCmd, c.max, over, runs, seen)
		if over > runs/2 && !c.infoOnly {
			t.Errorf("%s: answer later than %v in %d of %d runs", c.goCmd, c.max, over, runs)
		}
	}
}

package uci

// Run (from the repository root, needs zz_audit_0_test.go in the same package):
//   export GOFLAGS=-mod=mod GOPROXY=off GOSUMDB=off
//   go test ./internal/uci/ -run 'TestAudit2_' -count=1 -v

import (
	"testing"
	"time"
)

// C13 - "With a fixed move time the best move is reported no later than
// that time plus a small scheduling allowance" / clock budget.
//
// Configuration: setoption name Hash value 8192 (announced range 0..65000).
// At the start of every search run() ages ALL entries of the transposition
// table (tt.AgeEntries) - inside the timed part of the search, not
// interruptible, cost proportional to the hash size (plus the first touch
// of the lazily mapped memory). From the second search on
// "go movetime 100" answers after 250 ms .. 2 s and as the timer has fired
// in the meantime the search itself does not get to search anything.
//
// needs about 8 GB of RAM
func TestAudit2_MoveTimeExceededWithLargeHash(t *testing.T) {
	e := newAuditEngine()
	e.cmd("setoption name Use_Book value false")
	e.cmd("isready")
	e.cmd("setoption name Hash value 8192")
	e.cmd("isready")
	defer e.cmd("setoption name Hash value 256")
	e.cmd("ucinewgame")
	e.cmd("position startpos moves e2e4 e7e5 g1f3 b8c6")

	const moveTime = 100 * time.Millisecond
	const allowance = 100 * time.Millisecond // very generous "scheduling allowance"
	for i := 1; i <= 4; i++ {
		line, elapsed, ok := e.goAndWait("go movetime 100", 60*time.Second)
		r := e.u.mySearch.LastSearchResult()
		t.Logf("search %d: %q after %v (iterations %d, nodes %d)", i, line, elapsed, r.SearchDepth, e.u.mySearch.NodesVisited())
		if !ok {
			t.Fatalf("search %d: no bestmove", i)
		}
		if elapsed > moveTime+allowance {
			t.Errorf("search %d: go movetime 100 answered after %v", i, elapsed)
		}
	}

	// same for the clock: 300 ms left, 1 move to go -> budget 270 ms
	line, elapsed, _ := e.goAndWait("go wtime 300 btime 300 movestogo 1", 60*time.Second)
	t.Logf("clock: %q after %v", line, elapsed)
	if elapsed > 300*time.Millisecond {
		t.Errorf("go wtime 300 btime 300 movestogo 1 answered after %v - lost on time", elapsed)
	}
}

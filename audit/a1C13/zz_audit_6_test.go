package uci

// Run (from the repository root, needs zz_audit_0_test.go in the same package):
//   export GOFLAGS=-mod=mod GOPROXY=off GOSUMDB=off
//   go test ./internal/uci/ -run 'TestAudit6_' -count=1 -v

import (
	"testing"
	"time"
)

// C13 - searchmoves / depth on roots which are drawn "by rule" only.
//
// A root with half move clock >= 100 or a third occurrence of the position
// is not terminal (both draws have to be claimed, the side to move has legal
// moves, GUIs like lichess do not adjudicate threefold). The engine answers
// such a root with zero iterations and "bestmove NoMove": not one of the
// listed searchmoves and not the requested number of iterations.
func TestAudit6_RuleDrawRootAnswersNoMove(t *testing.T) {
	e := newAuditEngine()
	e.cmd("setoption name Use_Book value false")
	e.cmd("isready")

	type tc struct{ pos, goCmd, listed string }
	for _, c := range []tc{
		{"position fen 6k1/5ppp/8/8/8/8/5PPP/R5K1 w - - 100 80", "go depth 4 searchmoves a1a8", "a1a8"},
		{"position startpos moves g1f3 g8f6 f3g1 f6g8 g1f3 g8f6 f3g1 f6g8", "go depth 4 searchmoves e2e4", "e2e4"},
	} {
		e.cmd("ucinewgame")
		e.cmd(c.pos)
		line, _, ok := e.goAndWait(c.goCmd, 30*time.Second)
		if !ok {
			t.Fatalf("%s: no bestmove", c.goCmd)
		}
		r := e.u.mySearch.LastSearchResult()
		t.Logf("%s | %s -> %q iterations=%d", c.pos, c.goCmd, line, r.SearchDepth)
		if bestMoveOf(line) != c.listed {
			t.Errorf("%s | %s: best move %q is not the listed move %s", c.pos, c.goCmd, bestMoveOf(line), c.listed)
		}
	}
}

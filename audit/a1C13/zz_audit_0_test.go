package uci

// Shared helpers for the C13 audit tests (zz_audit_<n>_test.go).
// Nothing in the engine is changed. The engine is driven through the UCI
// handler exactly as a GUI would do it: command lines in, output lines out.

import (
	"bufio"
	"strings"
	"sync"
	"time"
)

type auditBuf struct {
	mu sync.Mutex
	sb strings.Builder
}

func (b *auditBuf) Write(p []byte) (int, error) {
	b.mu.Lock()
	defer b.mu.Unlock()
	return b.sb.Write(p)
}

func (b *auditBuf) String() string {
	b.mu.Lock()
	defer b.mu.Unlock()
	return b.sb.String()
}

func (b *auditBuf) Reset() {
	b.mu.Lock()
	defer b.mu.Unlock()
	b.sb.Reset()
}

type auditEngine struct {
	u   *UciHandler
	buf *auditBuf
}

func newAuditEngine() *auditEngine {
	u := NewUciHandler()
	b := &auditBuf{}
	u.OutIo = bufio.NewWriter(b)
	return &auditEngine{u: u, buf: b}
}

// cmd sends one command line to the engine (what the loop does per line)
func (e *auditEngine) cmd(c string) { e.u.handleReceivedCommand(c) }

// goAndWait clears the output, sends the go command and waits for the
// bestmove line. Returns the bestmove line, the wall time from sending
// the command until the bestmove line was available and false on timeout.
func (e *auditEngine) goAndWait(goCmd string, timeout time.Duration) (string, time.Duration, bool) {
	e.buf.Reset()
	start := time.Now()
	e.cmd(goCmd)
	line, ok := e.waitBest(start, timeout)
	elapsed := time.Since(start)
	if !ok {
		e.cmd("stop")
	}
	e.u.mySearch.WaitWhileSearching()
	return line, elapsed, ok
}

func (e *auditEngine) waitBest(start time.Time, timeout time.Duration) (string, bool) {
	for time.Since(start) < timeout {
		for _, l := range strings.Split(e.buf.String(), "\n") {
			if strings.HasPrefix(l, "bestmove") {
				return l, true
			}
		}
		time.Sleep(100 * time.Microsecond)
	}
	return "", false
}

// bestMoveOf extracts the move of a "bestmove xxxx [ponder yyyy]" line
func bestMoveOf(line string) string {
	f := strings.Fields(line)
	if len(f) < 2 {
		return ""
	}
	return f[1]
}

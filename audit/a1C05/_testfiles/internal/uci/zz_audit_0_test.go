package uci

// Shared helpers for the audit tests zz_audit_<n>_test.go (property C05).
// A GUI simulator: sends UCI lines and validates every "info ... pv" and
// "bestmove" line against the legal move generator.

import (
	"bufio"
	"fmt"
	"strings"
	"sync"
	"testing"
	"time"

	"github.com/frankkopp/FrankyGo/internal/config"
	"github.com/frankkopp/FrankyGo/internal/movegen"
	"github.com/frankkopp/FrankyGo/internal/position"
)

func init() {
	// keep the test output readable
	config.Settings.Log.LogLvl = "error"
	config.Settings.Log.SearchLogLvl = "error"
	config.Settings.Log.LogPath = "/nonexistent-audit-logs"
	config.LogLevel = 1
	config.SearchLogLevel = 1
	config.TestLogLevel = 1
}

type auditOut struct {
	mu    sync.Mutex
	lines []string
	cur   strings.Builder
}

func (o *auditOut) Write(b []byte) (int, error) {
	o.mu.Lock()
	defer o.mu.Unlock()
	for _, c := range b {
		if c == '\n' {
			o.lines = append(o.lines, o.cur.String())
			o.cur.Reset()
		} else {
			o.cur.WriteByte(c)
		}
	}
	return len(b), nil
}

func (o *auditOut) snapshot() []string {
	o.mu.Lock()
	defer o.mu.Unlock()
	return append([]string(nil), o.lines...)
}

func (o *auditOut) reset() {
	o.mu.Lock()
	o.lines = nil
	o.mu.Unlock()
}

type auditGui struct {
	t   *testing.T
	u   *UciHandler
	out *auditOut
}

func newAuditGui(t *testing.T) *auditGui {
	g := &auditGui{t: t, u: NewUciHandler(), out: &auditOut{}}
	g.u.OutIo = bufio.NewWriter(g.out)
	return g
}

func (g *auditGui) send(cmd string) { g.u.handleReceivedCommand(cmd) }

// waitBestmove waits for a bestmove line and returns it ("" on timeout).
func (g *auditGui) waitBestmove(timeout time.Duration) string {
	deadline := time.Now().Add(timeout)
	for time.Now().Before(deadline) {
		for _, l := range g.out.snapshot() {
			if strings.HasPrefix(l, "bestmove") {
				return l
			}
		}
		time.Sleep(2 * time.Millisecond)
	}
	return ""
}

func auditLegalUci(p *position.Position, uciMove string) bool {
	mg := movegen.NewMoveGen()
	for _, m := range *mg.GenerateLegalMoves(p, movegen.GenAll) {
		if m.StringUci() == uciMove {
			return true
		}
	}
	return false
}

// auditCheckUciLine plays a line given in UCI notation on a copy of p
func auditCheckUciLine(p *position.Position, moves []string) error {
	cp := *p
	mg := movegen.NewMoveGen()
	for i, ms := range moves {
		if !auditLegalUci(&cp, ms) {
			return fmt.Errorf("move #%d %s of <%s> is not legal in %s", i+1, ms, strings.Join(moves, " "), cp.StringFen())
		}
		cp.DoMove(mg.GetMoveFromUci(&cp, ms))
	}
	return nil
}

// validate checks all output lines of one search on position p
func (g *auditGui) validate(p *position.Position) []string {
	var v []string
	best := ""
	for _, l := range g.out.snapshot() {
		f := strings.Fields(l)
		if len(f) == 0 {
			continue
		}
		if f[0] == "info" {
			for i, w := range f {
				if w == "pv" {
					if err := auditCheckUciLine(p, f[i+1:]); err != nil {
						v = append(v, "<"+l+">: "+err.Error())
					}
					break
				}
			}
		}
		if f[0] == "bestmove" {
			if best != "" {
				v = append(v, "more than one bestmove line")
			}
			best = l
			if len(f) < 2 || !auditLegalUci(p, f[1]) {
				v = append(v, fmt.Sprintf("<%s>: best move is not a legal move in %s", l, p.StringFen()))
				continue
			}
			if len(f) >= 4 && f[2] == "ponder" {
				if err := auditCheckUciLine(p, []string{f[1], f[3]}); err != nil {
					v = append(v, "<"+l+">: "+err.Error())
				}
			}
		}
	}
	if best == "" {
		v = append(v, "no bestmove line")
	}
	return v
}

package uci

// Audit finding 2 (property C05): a search on a position which is a "claimable"
// draw (3rd occurrence of the position, or half move clock >= 100) but in which
// the side to move has legal moves returns NO move: "bestmove NoMove".
// The game is not over in these positions (a draw has to be claimed; the GUI
// or the opponent may simply play on) and a GUI which asks for a move or for
// an analysis gets a null answer / no pv.

import (
	"testing"
	"time"

	"github.com/frankkopp/FrankyGo/internal/config"
	"github.com/frankkopp/FrankyGo/internal/position"
)

func TestAudit2_RootRepetition(t *testing.T) {
	config.Settings.Search.UseBook = false
	g := newAuditGui(t)
	g.send("ucinewgame")
	g.send("position startpos moves g1f3 g8f6 f3g1 f6g8 g1f3 g8f6 f3g1 f6g8")
	p := *g.u.myPosition
	g.out.reset()
	g.send("go depth 4")
	bm := g.waitBestmove(30 * time.Second)
	t.Logf("answer: %q", bm)
	if v := g.validate(&p); len(v) > 0 {
		t.Errorf("property C05 violated (20 legal moves in %s):\n  %v", p.StringFen(), v)
	}
}

func TestAudit2_RootFiftyMoves(t *testing.T) {
	config.Settings.Search.UseBook = false
	g := newAuditGui(t)
	g.send("ucinewgame")
	// KRK - white mates in a few moves; half move clock 100
	g.send("position fen 7k/8/5K2/8/8/8/8/R7 w - - 100 120")
	p := *g.u.myPosition
	if mg := position.NewPosition(p.StringFen()); mg == nil {
		t.Fatal("fen")
	}
	g.out.reset()
	g.send("go movetime 200")
	bm := g.waitBestmove(30 * time.Second)
	t.Logf("answer: %q", bm)
	if v := g.validate(&p); len(v) > 0 {
		t.Errorf("property C05 violated in %s:\n  %v", p.StringFen(), v)
	}
}

package uci

// Audit finding 1 (property C05) on UCI level - see also
// internal/search/zz_audit_1_test.go for the explanation.
// The en passant square of a FEN is not part of the zobrist key.

import (
	"testing"
	"time"

	"github.com/frankkopp/FrankyGo/internal/config"
)

func TestAudit1_FenEnPassantNotInHashKey_Uci(t *testing.T) {
	config.Settings.Search.UseBook = false
	g := newAuditGui(t)
	g.send("setoption name Use_Book value false")
	g.send("ucinewgame")

	// analysis of a position: after f7f5 white's best move is e5xf6 e.p.
	g.send("position fen 8/4npnk/8/4P3/5P2/8/8/6K1 b - - 0 1")
	g.send("go depth 6")
	if g.waitBestmove(60*time.Second) == "" {
		t.Fatal("no bestmove for search 1")
	}
	g.u.mySearch.WaitWhileSearching()

	// another position of the same structure given as FEN with en passant
	// square (white has just played f2f4). After h8h7 white has NO en passant
	// capture (the black pawn has been on f5 for a while).
	g.send("position fen 7k/4n1n1/8/4Pp2/5P2/8/8/6K1 b - f3 0 1")
	p := *g.u.myPosition
	g.out.reset()
	g.send("go searchmoves h8h7 depth 4")
	bm := g.waitBestmove(60 * time.Second)
	t.Logf("answer: %q", bm)
	if v := g.validate(&p); len(v) > 0 {
		t.Errorf("property C05 violated:\n  %v", v)
	}
}

package uci

// Audit finding 3 (property C05, narrow corner): a search at the end of a
// long game (512 plies = the announced maximum of the position command) with
// "go depth 250" panics with "index out of range [641] with length 641":
// getPVLine (alphabeta.go) follows the hash move chain for up to <depth> plies
// from ANY ply without looking at the remaining room of the position history
// (maxHistory = MaxMoves + MaxDepth + 1) and "go depth" is not limited to
// MaxDepth, so ply + depth can exceed MaxDepth.
// The engine process dies - no bestmove is ever sent.

import (
	"strings"
	"testing"
	"time"

	"github.com/frankkopp/FrankyGo/internal/config"
	"github.com/frankkopp/FrankyGo/internal/movegen"
	"github.com/frankkopp/FrankyGo/internal/position"
	"github.com/frankkopp/FrankyGo/internal/types"
)

const audit3Start = "4k3/p6p/8/8/8/8/P6P/R3K3 w - - 0 1"

// a legal game of 512 plies: rook and black king shuffle, a pawn move at
// least every 61 plies, at the end the white king walks to e5.
// Final position: 4k3/8/8/4K3/p6p/P6P/8/R7 w - - 30 257 (mate in 3)
func audit3Game(t *testing.T) []string {
	p, _ := position.NewPositionFen(audit3Start)
	mg := movegen.NewMoveGen()
	var game []string
	play := func(u string) {
		m := mg.GetMoveFromUci(p, u)
		if m == types.MoveNone {
			t.Fatalf("illegal %s in %s", u, p.StringFen())
		}
		p.DoMove(m)
		game = append(game, u)
	}
	sched := map[int]string{60: "a2a3", 121: "a7a6", 180: "h2h3", 241: "h7h6", 301: "a6a5", 361: "h6h5", 421: "a5a4", 481: "h5h4"}
	wk := []string{"e1e2", "e2e3", "e3e4", "e4e5"}
	total := 512
	for i := 0; i < total; i++ {
		if u, ok := sched[i]; ok {
			play(u)
			continue
		}
		if i%2 == 0 { // white
			whiteLeft := (total - i + 1) / 2
			rookHome := p.GetPiece(types.SqA1) == types.WhiteRook
			if rookHome && len(wk) > 0 && whiteLeft <= len(wk) {
				play(wk[0])
				wk = wk[1:]
			} else if rookHome {
				play("a1b1")
			} else {
				play("b1a1")
			}
		} else {
			if p.GetPiece(types.SqE8) == types.BlackKing {
				play("e8d8")
			} else {
				play("d8e8")
			}
		}
	}
	return game
}

func TestAudit3_LongGameDeepSearch(t *testing.T) {
	config.Settings.Search.UseBook = false
	g := newAuditGui(t)
	g.send("setoption name Use_Book value false")
	g.send("setoption name Hash value 64")
	g.send("ucinewgame")

	// an earlier analysis of a related position leaves entries in the hash table
	g.send("position fen 8/8/8/3k4/p6p/P6P/8/R3K3 w - - 0 1")
	g.send("go infinite")
	time.Sleep(10 * time.Second)
	g.send("stop")
	if g.waitBestmove(10*time.Second) == "" {
		t.Fatal("no bestmove for the first search")
	}
	g.u.mySearch.WaitWhileSearching()

	g.send("position fen " + audit3Start + " moves " + strings.Join(audit3Game(t), " "))
	p := *g.u.myPosition
	t.Logf("position: %s", p.StringFen())
	g.out.reset()
	g.send("go depth 250")
	// the search goroutine panics (the test binary dies with the stack trace)
	bm := g.waitBestmove(120 * time.Second)
	t.Logf("answer: %q", bm)
	if v := g.validate(&p); len(v) > 0 {
		t.Errorf("property C05 violated in %s:\n  %v", p.StringFen(), v)
	}
}

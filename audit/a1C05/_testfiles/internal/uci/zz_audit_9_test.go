package uci

// Audit C05 - randomized harness on UCI level (passes on the current code,
// listed under "what was tried" in FINDINGS.md): random setoption of all
// announced check options and hash sizes, position fen/startpos + moves,
// all go variants (depth, nodes, movetime, clock, infinite, ponder, searchmoves)
// with stop/ponderhit at random moments; every "info ... pv" and "bestmove"
// line is validated against the legal move generator.
//   AUDIT_SEED=<n> AUDIT_N=<episodes> go test ./internal/uci/ -run TestAudit9 -count=1 -timeout 3000s

import (
	"fmt"
	"math/rand"
	"os"
	"strconv"
	"strings"
	"testing"
	"time"

	"github.com/frankkopp/FrankyGo/internal/movegen"
	"github.com/frankkopp/FrankyGo/internal/position"
)

var fuzzFens = []string{
	position.StartFen,
	"r3k2r/p1ppqpb1/bn2pnp1/3PN3/1p2P3/2N2Q1p/PPPBBPPP/R3K2R w KQkq - 0 1",
	"8/2p5/3p4/KP5r/1R3p1k/8/4P1P1/8 w - - 0 1",
	"r3k2r/Pppp1ppp/1b3nbN/nP6/BBP1P3/q4N2/Pp1P2PP/R2Q1RK1 w kq - 0 1",
	"rnbq1k1r/pp1Pbppp/2p5/8/2B5/8/PPP1NnPP/RNBQK2R w KQ - 1 8",
	"8/8/8/8/8/4k3/4p3/4K3 b - - 0 1",
	"8/P7/8/8/8/8/7k/K7 w - - 96 80",
	"6k1/5ppp/8/8/8/8/5PPP/3R2K1 w - - 97 60",
	"4k3/8/8/8/8/8/4P3/4K3 w - - 0 1",
	"k7/8/1K6/8/8/8/8/6Q1 w - - 90 1",
	"8/1P1P1P2/8/8/8/k7/2p1p1p1/K7 w - - 0 1",
	"7k/8/5K2/8/8/8/8/R7 w - - 0 1",
	"4k3/8/8/p6p/P6P/8/8/4K3 w - - 0 1",
}

var fuzzChecks = []string{"Use_Hash", "Quiescence", "Use_QHash", "Use_SEE", "Use_PromNonQuiet", "Use_PVS", "Use_ASP", "Use_MTDf",
	"Use_IID", "Use_Killer", "Use_HistCount", "Use_CounterMove", "Use_Rfp", "Use_NullMove", "Use_Mdp", "Use_Fp", "Use_Lmr", "Use_Lmp",
	"Use_Ext", "Use_ExtAddDepth", "Use_CheckExt", "Use_ThreatExt", "Eval_Lazy", "Eval_Mobility", "Eval_AdvPiece", "Ponder"}

func TestAudit9_RandomUciSessions(t *testing.T) {
	seed := int64(1)
	if v := os.Getenv("AUDIT_SEED"); v != "" {
		seed, _ = strconv.ParseInt(v, 10, 64)
	}
	n := 100
	if v := os.Getenv("AUDIT_N"); v != "" {
		n, _ = strconv.Atoi(v)
	}
	r := rand.New(rand.NewSource(seed))
	g := newAuditGui(t)
	g.send("setoption name Use_Book value false")
	g.send("setoption name Hash value 1")
	mg := movegen.NewMoveGen()
	var trace []string
	send := func(c string) { trace = append(trace, c); g.send(c) }
	fails := 0
	for ep := 0; ep < n && fails < 3; ep++ {
		trace = nil
		if r.Intn(3) == 0 {
			send("ucinewgame")
		}
		if r.Intn(4) == 0 {
			send(fmt.Sprintf("setoption name Hash value %d", []int{0, 1, 2, 8}[r.Intn(4)]))
		}
		for _, o := range fuzzChecks {
			if r.Intn(3) == 0 {
				send(fmt.Sprintf("setoption name %s value %v", o, r.Intn(2) == 0))
			}
		}
		fen := fuzzFens[r.Intn(len(fuzzFens))]
		p, _ := position.NewPositionFen(fen)
		moves := ""
		plies := r.Intn(80)
		for k := 0; k < plies+8; k++ {
			ml := mg.GenerateLegalMoves(p, movegen.GenAll)
			if ml.Len() == 0 || p.CheckRepetitions(2) || p.HalfMoveClock() >= 100 {
				break
			}
			if k >= plies || r.Intn(10) == 0 {
				pc := "position fen " + fen
				if fen == position.StartFen && r.Intn(2) == 0 {
					pc = "position startpos"
				}
				if moves != "" {
					pc += " moves" + moves
				}
				send(pc)
				if g.u.myPosition.StringFen() != p.StringFen() {
					t.Fatalf("position not set: %s vs %s", g.u.myPosition.StringFen(), p.StringFen())
				}
				g.out.reset()
				stopAfter := time.Duration(-1)
				hit := false
				var gc string
				switch r.Intn(8) {
				case 0:
					gc = fmt.Sprintf("go depth %d", 1+r.Intn(6))
				case 1:
					gc = fmt.Sprintf("go nodes %d", 1+r.Intn(20000))
				case 2:
					gc = fmt.Sprintf("go movetime %d", 1+r.Intn(50))
				case 3:
					gc = fmt.Sprintf("go wtime %d btime %d winc %d binc %d", 1+r.Intn(1500), 1+r.Intn(1500), r.Intn(50), r.Intn(50))
					if r.Intn(2) == 0 {
						gc += fmt.Sprintf(" movestogo %d", 1+r.Intn(10))
					}
				case 4:
					gc = "go infinite"
					stopAfter = time.Duration(r.Intn(30000)) * time.Microsecond
				case 5:
					gc = fmt.Sprintf("go ponder wtime %d btime %d", 1+r.Intn(500), 1+r.Intn(500))
					stopAfter = time.Duration(r.Intn(30000)) * time.Microsecond
					hit = r.Intn(2) == 0
				case 6:
					gc = fmt.Sprintf("go ponder depth %d", 1+r.Intn(4))
					stopAfter = time.Duration(r.Intn(30000)) * time.Microsecond
					hit = r.Intn(2) == 0
				case 7:
					// searchmoves with some legal moves
					gc = "go searchmoves"
					for i := 0; i < 1+r.Intn(3); i++ {
						gc += " " + ml.At(r.Intn(ml.Len())).StringUci()
					}
					gc += fmt.Sprintf(" depth %d", 1+r.Intn(5))
				}
				send(gc)
				if stopAfter >= 0 {
					time.Sleep(stopAfter)
					if hit {
						send("ponderhit")
					} else {
						send("stop")
					}
				}
				bm := g.waitBestmove(60 * time.Second)
				if bm == "" {
					t.Fatalf("no bestmove (hang)\n%s", strings.Join(trace, "\n"))
				}
				if v := g.validate(p); len(v) > 0 {
					fails++
					t.Errorf("violation:\n  %s\ntrace:\n%s", strings.Join(v, "\n  "), strings.Join(trace, "\n"))
				}
				if r.Intn(2) == 0 {
					g.u.mySearch.WaitWhileSearching()
				}
			}
			ml = mg.GenerateLegalMoves(p, movegen.GenAll)
			m := ml.At(r.Intn(ml.Len()))
			moves += " " + m.StringUci()
			p.DoMove(m)
		}
	}
	g.u.mySearch.StopSearch()
}

package search

// Shared helpers for the audit tests zz_audit_<n>_test.go (property C05).
// No engine source is changed; this file only contains test helpers.

import (
	"fmt"
	"strings"
	"sync"
	"testing"
	"time"

	"github.com/frankkopp/FrankyGo/internal/config"
	"github.com/frankkopp/FrankyGo/internal/movegen"
	"github.com/frankkopp/FrankyGo/internal/moveslice"
	"github.com/frankkopp/FrankyGo/internal/position"
	"github.com/frankkopp/FrankyGo/internal/types"
)

func init() {
	// keep the test output readable
	config.Settings.Log.LogLvl = "error"
	config.Settings.Log.SearchLogLvl = "error"
	config.Settings.Log.LogPath = "/nonexistent-audit-logs"
	config.LogLevel = 1
	config.SearchLogLevel = 1
	config.TestLogLevel = 1
}

// auditDriver is a UciDriver which records everything the search reports.
type auditDriver struct {
	mu      sync.Mutex
	pvs     []moveslice.MoveSlice
	infos   []string
	results [][2]types.Move
}

func (d *auditDriver) SendReadyOk() {}
func (d *auditDriver) SendInfoString(info string) {
	d.mu.Lock()
	d.infos = append(d.infos, info)
	d.mu.Unlock()
}
func (d *auditDriver) SendIterationEndInfo(depth int, seldepth int, value types.Value, nodes uint64, nps uint64, t time.Duration, pv moveslice.MoveSlice) {
	d.mu.Lock()
	d.pvs = append(d.pvs, *pv.Clone())
	d.mu.Unlock()
}
func (d *auditDriver) SendAspirationResearchInfo(depth int, seldepth int, value types.Value, bound string, nodes uint64, nps uint64, t time.Duration, pv moveslice.MoveSlice) {
}
func (d *auditDriver) SendCurrentRootMove(currMove types.Move, moveNumber int)                   {}
func (d *auditDriver) SendSearchUpdate(depth int, seldepth int, nodes uint64, nps uint64, t time.Duration, hashfull int) {
}
func (d *auditDriver) SendCurrentLine(moveList moveslice.MoveSlice) {}
func (d *auditDriver) SendResult(bestMove types.Move, ponderMove types.Move) {
	d.mu.Lock()
	d.results = append(d.results, [2]types.Move{bestMove, ponderMove})
	d.mu.Unlock()
}
func (d *auditDriver) reset() {
	d.mu.Lock()
	d.pvs, d.infos, d.results = nil, nil, nil
	d.mu.Unlock()
}

// auditIsLegal checks a move against the legal move generator (exact match
// of from, to, move type and promotion piece).
func auditIsLegal(p *position.Position, m types.Move) bool {
	mg := movegen.NewMoveGen()
	for _, l := range *mg.GenerateLegalMoves(p, movegen.GenAll) {
		if l.MoveOf() == m.MoveOf() {
			return true
		}
	}
	return false
}

// auditCheckLine plays the line on a copy of the position and returns an
// error for the first move which is not legal.
func auditCheckLine(p *position.Position, line moveslice.MoveSlice) error {
	cp := *p
	for i, m := range line {
		if !auditIsLegal(&cp, m) {
			return fmt.Errorf("move #%d %s (%s) of line <%s> is not legal in %s",
				i+1, m.StringUci(), m.MoveType().String(), line.StringUci(), cp.StringFen())
		}
		cp.DoMove(m)
	}
	return nil
}

// auditWait waits for the search to end (guarded by a timeout).
func auditWait(t *testing.T, s *Search, timeout time.Duration) bool {
	t.Helper()
	done := make(chan struct{})
	go func() { s.WaitWhileSearching(); close(done) }()
	select {
	case <-done:
		return true
	case <-time.After(timeout):
		t.Errorf("search did not terminate within %s", timeout)
		return false
	}
}

// auditValidate checks the result of the last search and everything which
// was reported for it against property C05. Returns a list of violations.
func auditValidate(p *position.Position, before string, s *Search, d *auditDriver) []string {
	var v []string
	d.mu.Lock()
	defer d.mu.Unlock()
	if p.StringFen() != before {
		v = append(v, fmt.Sprintf("position handed to the search changed: %s -> %s", before, p.StringFen()))
	}
	if len(d.results) != 1 {
		v = append(v, fmt.Sprintf("expected exactly one result, got %d", len(d.results)))
		return v
	}
	best, ponder := d.results[0][0], d.results[0][1]
	if !auditIsLegal(p, best) {
		v = append(v, fmt.Sprintf("best move %s is not legal in %s", best.StringUci(), p.StringFen()))
		return v
	}
	if ponder != types.MoveNone {
		cp := *p
		cp.DoMove(best)
		if !auditIsLegal(&cp, ponder) {
			v = append(v, fmt.Sprintf("ponder move %s (%s) is not legal after best move %s in %s",
				ponder.StringUci(), ponder.MoveType().String(), best.StringUci(), cp.StringFen()))
		}
	}
	for _, pv := range d.pvs {
		if err := auditCheckLine(p, pv); err != nil {
			v = append(v, "reported pv: "+err.Error())
		}
	}
	r := s.LastSearchResult()
	if r.Pv.Len() > 0 {
		if r.Pv[0].MoveOf() != best.MoveOf() {
			v = append(v, fmt.Sprintf("final pv <%s> does not start with best move %s", r.Pv.StringUci(), best.StringUci()))
		}
		if err := auditCheckLine(p, r.Pv); err != nil {
			v = append(v, "final pv: "+err.Error())
		}
	}
	return v
}

func auditJoin(v []string) string { return strings.Join(v, "\n  ") }

package search

// Audit finding 1 (property C05): the en passant square of a FEN is not
// part of the zobrist key (position.setupBoard never xors enPassantFile in,
// but clearEnPassant xors it "out" with the first move). Positions below a
// root which was set up from a FEN with an en passant square therefore share
// their hash keys with DIFFERENT positions (same board, en passant right on
// that file) of an ordinary search. The hash move of the other position - an
// en passant capture - is played unchecked and ends up in PV and ponder move.

import (
	"testing"
	"time"

	"github.com/frankkopp/FrankyGo/internal/config"
	"github.com/frankkopp/FrankyGo/internal/moveslice"
	"github.com/frankkopp/FrankyGo/internal/position"
	"github.com/frankkopp/FrankyGo/internal/types"
)

func TestAudit1_FenEnPassantNotInHashKey(t *testing.T) {
	config.Settings.Search.UseBook = false
	config.Settings.Search.UseTT = true

	s := NewSearch()
	d := &auditDriver{}
	s.SetUciHandler(d)
	s.NewGame()

	// Search 1 (ordinary position, leaves entries in the hash table):
	// black plays f7f5 and white's best answer is e5xf6 e.p.
	p1, err := position.NewPositionFen("8/4npnk/8/4P3/5P2/8/8/6K1 b - - 0 1")
	if err != nil {
		t.Fatal(err)
	}
	s.StartSearch(*p1, Limits{Depth: 6})
	if !auditWait(t, s, 60*time.Second) {
		return
	}
	r1 := s.LastSearchResult(); t.Logf("search 1: %s", r1.String())

	// Search 2: same game, a few moves "earlier/later" - position given as
	// FEN with en passant square f3 (white has just played f2f4).
	// After h8h7 the board is the board of search 1 after f7f5 but WITHOUT
	// any en passant right for white.
	p2, err := position.NewPositionFen("7k/4n1n1/8/4Pp2/5P2/8/8/6K1 b - f3 0 1")
	if err != nil {
		t.Fatal(err)
	}
	before := p2.StringFen()
	d.reset()
	sl := Limits{Depth: 4}
	sl.Moves = *moveslice.NewMoveSlice(1)
	sl.Moves.PushBack(types.CreateMove(types.SqH8, types.SqH7, types.Normal, types.PtNone))
	s.StartSearch(*p2, sl)
	if !auditWait(t, s, 60*time.Second) {
		return
	}
	r2 := s.LastSearchResult(); t.Logf("search 2: %s", r2.String())
	if v := auditValidate(p2, before, s, d); len(v) > 0 {
		t.Errorf("property C05 violated:\n  %s", auditJoin(v))
	}
}

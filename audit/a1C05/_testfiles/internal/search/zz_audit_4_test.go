package search

// Audit finding 4 (property C05): a move taken from the hash table is never
// checked against the position it is played in (movegen.fillOnDemandMoveList
// pushes the pv move unchecked, search() calls GivesCheck/DoMove on it,
// getPVLine and the ponder move lookup do the same).
// The two LEGAL positions below (ordinary material, no promoted pieces) have
// the same 64-bit zobrist key after the black king move d5c5 - they were
// constructed with internal/position/zz_audit_4_find_test.go.
// Search 1 leaves an entry for position A in the hash table, search 2 reaches
// position B at ply 1, gets A's best move (from a square which is empty in B)
// as hash move and the search goroutine panics
// ("GetAttackBb called with piece type Pawn is not supported") - the engine
// process dies, no best move is ever sent.

import (
	"testing"
	"time"

	"github.com/frankkopp/FrankyGo/internal/config"
	"github.com/frankkopp/FrankyGo/internal/movegen"
	"github.com/frankkopp/FrankyGo/internal/position"
)

const (
	audit4FenA = "8/8/B4r1r/b2k4/8/8/3N4/NK3Q1b b - - 0 1"
	audit4FenB = "1n2NR2/7r/8/3k4/2r3Rn/2Q5/8/1K6 b - - 0 1"
)

func TestAudit4_HashMoveOfOtherPosition(t *testing.T) {
	config.Settings.Search.UseBook = false
	config.Settings.Search.UseTT = true
	config.Settings.Search.TTSize = 16

	// the positions after d5c5 are different but have the same hash key
	mg := movegen.NewMoveGen()
	a, _ := position.NewPositionFen(audit4FenA)
	b, _ := position.NewPositionFen(audit4FenB)
	a.DoMove(mg.GetMoveFromUci(a, "d5c5"))
	b.DoMove(mg.GetMoveFromUci(b, "d5c5"))
	t.Logf("A: %s key %d", a.StringFen(), a.ZobristKey())
	t.Logf("B: %s key %d", b.StringFen(), b.ZobristKey())
	if a.ZobristKey() != b.ZobristKey() || a.StringFen() == b.StringFen() {
		t.Fatal("setup: expected two different positions with the same key")
	}

	s := NewSearch()
	d := &auditDriver{}
	s.SetUciHandler(d)
	s.NewGame()

	p1, _ := position.NewPositionFen(audit4FenA)
	s.StartSearch(*p1, Limits{Depth: 4})
	if !auditWait(t, s, 60*time.Second) {
		return
	}
	r1 := s.LastSearchResult()
	t.Logf("search 1: %s", r1.String())

	p2, _ := position.NewPositionFen(audit4FenB)
	before := p2.StringFen()
	d.reset()
	s.StartSearch(*p2, Limits{Depth: 4})
	// the search goroutine panics here - the test binary dies
	if !auditWait(t, s, 60*time.Second) {
		return
	}
	r2 := s.LastSearchResult()
	t.Logf("search 2: %s", r2.String())
	if v := auditValidate(p2, before, s, d); len(v) > 0 {
		t.Errorf("property C05 violated:\n  %s", auditJoin(v))
	}
}

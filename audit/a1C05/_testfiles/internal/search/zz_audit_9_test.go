package search

// Audit C05 - randomized harness on the level of the Search API (passes on the
// current code, listed under "what was tried" in FINDINGS.md):
// random games from a set of start positions, random feature switches, random
// hash sizes, shared hash/history tables over many searches, all limit modes,
// stop/ponderhit at random moments. Every result, ponder move and reported PV
// is validated against the legal move generator.
//   AUDIT_SEED=<n> AUDIT_N=<episodes> go test ./internal/search/ -run TestAudit9 -count=1 -timeout 3000s

import (
	"math/rand"
	"os"
	"strconv"
	"testing"
	"time"

	"github.com/frankkopp/FrankyGo/internal/config"
	"github.com/frankkopp/FrankyGo/internal/movegen"
	"github.com/frankkopp/FrankyGo/internal/position"
)

var fuzzFens = []string{
	position.StartFen,
	"r3k2r/p1ppqpb1/bn2pnp1/3PN3/1p2P3/2N2Q1p/PPPBBPPP/R3K2R w KQkq - 0 1",
	"8/2p5/3p4/KP5r/1R3p1k/8/4P1P1/8 w - - 0 1",
	"r3k2r/Pppp1ppp/1b3nbN/nP6/BBP1P3/q4N2/Pp1P2PP/R2Q1RK1 w kq - 0 1",
	"rnbq1k1r/pp1Pbppp/2p5/8/2B5/8/PPP1NnPP/RNBQK2R w KQ - 1 8",
	"r4rk1/1pp1qppp/p1np1n2/2b1p1B1/2B1P1b1/P1NP1N2/1PP1QPPP/R4RK1 w - - 0 10",
	"8/8/8/8/8/4k3/4p3/4K3 w - - 0 1",
	"8/P7/8/8/8/8/7k/K7 w - - 0 1",
	"6k1/5ppp/8/8/8/8/5PPP/3R2K1 w - - 0 1",
	"4k3/8/8/8/8/8/4P3/4K3 w - - 0 1",
	"k7/8/1K6/8/8/8/8/6Q1 w - - 0 1",
	"8/1P1P1P2/8/8/8/k7/2p1p1p1/K7 w - - 0 1",
	"r1bqkbnr/pppp1ppp/2n5/4p3/4P3/5N2/PPPP1PPP/RNBQKB1R w KQkq - 2 3",
	"2rq1rk1/pb1n1ppN/4p3/1pb5/3P1Pn1/P1N5/1PQ1B1PP/R1B2RK1 b - - 0 16",
	"8/8/4k3/8/8/4K3/8/8 w - - 0 1",
	"QQQQQQQk/8/8/8/8/8/8/K7 b - - 0 1",
	"7k/8/8/8/8/8/qqqqqqqq/K7 w - - 0 1",
}

func fuzzSwitches(r *rand.Rand) {
	b := func() bool { return r.Intn(2) == 0 }
	s := &config.Settings.Search
	s.UseBook = false
	s.UseQuiescence, s.UseQSTT, s.UseSEE, s.UsePromNonQuiet = b(), b(), b(), b()
	s.UsePVS, s.UseAspiration, s.UseMTDf = b(), b(), b()
	s.UseIID, s.UseKiller, s.UseHistoryCounter, s.UseCounterMoves = b(), b(), b(), b()
	s.UseRFP, s.UseNullMove, s.UseMDP, s.UseFP, s.UseLmr, s.UseLmp = b(), b(), b(), b(), b(), b()
	s.UseExt, s.UseExtAddDepth, s.UseCheckExt, s.UseThreatExt = b(), b(), b(), b()
	config.Settings.Eval.UseLazyEval, config.Settings.Eval.UseMobility, config.Settings.Eval.UseAdvancedPieceEval = b(), b(), b()
	s.UseTT = r.Intn(4) != 0
}

func TestAudit9_RandomSearches(t *testing.T) {
	seed := int64(1)
	if v := os.Getenv("AUDIT_SEED"); v != "" {
		seed, _ = strconv.ParseInt(v, 10, 64)
	}
	n := 300
	if v := os.Getenv("AUDIT_N"); v != "" {
		n, _ = strconv.Atoi(v)
	}
	r := rand.New(rand.NewSource(seed))
	config.Settings.Search.TTSize = 1
	s := NewSearch()
	d := &auditDriver{}
	s.SetUciHandler(d)
	mg := movegen.NewMoveGen()
	fails := 0
	for ep := 0; ep < n && fails < 5; ep++ {
		fen := fuzzFens[r.Intn(len(fuzzFens))]
		p, _ := position.NewPositionFen(fen)
		if r.Intn(3) == 0 {
			s.NewGame()
		}
		if r.Intn(5) == 0 {
			config.Settings.Search.TTSize = []int{0, 1, 2, 4}[r.Intn(4)]
			s.ResizeCache()
		}
		fuzzSwitches(r)
		plies := r.Intn(60)
		for k := 0; k < plies+6; k++ {
			if p.PiecesBb(0, 1).PopCount() != 1 || p.PiecesBb(1, 1).PopCount() != 1 {
				t.Fatalf("king missing: start %s now %s last move %s", fen, p.StringFen(), p.LastMove().StringUci())
			}
			ml := mg.GenerateLegalMoves(p, movegen.GenAll)
			if ml.Len() == 0 {
				break
			}
			if k >= plies || r.Intn(8) == 0 {
				// search here
				if p.CheckRepetitions(2) || p.HalfMoveClock() >= 100 {
					break
				}
				if r.Intn(4) == 0 {
					fuzzSwitches(r)
				}
				before := p.StringFen()
				d.reset()
				var sl Limits
				stopAfter := time.Duration(-1)
				ponderhit := false
				switch r.Intn(7) {
				case 0:
					sl.Depth = 1 + r.Intn(7)
				case 1:
					sl.Nodes = uint64(1 + r.Intn(30000))
				case 2:
					sl.TimeControl, sl.MoveTime = true, time.Duration(1+r.Intn(60))*time.Millisecond
				case 3:
					sl.TimeControl = true
					sl.WhiteTime = time.Duration(1+r.Intn(2000)) * time.Millisecond
					sl.BlackTime = time.Duration(1+r.Intn(2000)) * time.Millisecond
					sl.WhiteInc = time.Duration(r.Intn(100)) * time.Millisecond
					sl.BlackInc = time.Duration(r.Intn(100)) * time.Millisecond
					sl.MovesToGo = r.Intn(5)
				case 4:
					sl.Infinite = true
					stopAfter = time.Duration(r.Intn(40000)) * time.Microsecond
				case 5:
					sl.Ponder = true
					sl.TimeControl = true
					sl.WhiteTime = time.Duration(1+r.Intn(1000)) * time.Millisecond
					sl.BlackTime = time.Duration(1+r.Intn(1000)) * time.Millisecond
					stopAfter = time.Duration(r.Intn(40000)) * time.Microsecond
					ponderhit = r.Intn(2) == 0
				case 6:
					sl.Depth = 1 + r.Intn(4)
					sl.Infinite = true
					stopAfter = time.Duration(r.Intn(40000)) * time.Microsecond
				}
				s.StartSearch(*p, sl)
				if stopAfter >= 0 {
					time.Sleep(stopAfter)
					if ponderhit {
						s.PonderHit()
					} else {
						s.StopSearch()
					}
				}
				if !auditWait(t, s, 60*time.Second) {
					t.Fatalf("hang: fen %s limits %+v cfg %+v", before, sl, config.Settings.Search)
				}
				if v := auditValidate(p, before, s, d); len(v) > 0 {
					fails++
					t.Errorf("episode %d: fen %s limits %+v\n cfg %+v\n  %s", ep, before, sl, config.Settings.Search, auditJoin(v))
				}
			}
			ml = mg.GenerateLegalMoves(p, movegen.GenAll)
			p.DoMove(ml.At(r.Intn(ml.Len())))
		}
	}
}

package position

// Tool for audit finding 4 (property C05): constructs pairs of DIFFERENT legal
// positions with the SAME 64-bit zobrist key (generalized birthday / k-tree
// over the piece-square keys). Only runs when AUDIT_FIND=1 is set:
//
//   AUDIT_FIND=1 go test ./internal/position/ -run TestAudit4_FindCollisions -count=1 -v -timeout 3000s
//
// It prints candidate pairs (FEN of a position one black king move before the
// colliding positions) which are used by internal/search/zz_audit_4_test.go.

import (
	"fmt"
	"os"
	"sort"
	"strings"
	"testing"

	. "github.com/frankkopp/FrankyGo/internal/types"
)

var a4Pieces = []Piece{WhiteKnight, WhiteBishop, WhiteRook, WhiteQueen, BlackKnight, BlackBishop, BlackRook, BlackQueen}

type a4Feat struct {
	pc Piece
	sq Square
}

// all 4-subsets of the 16 squares of a region
func a4Combos() [][4]int {
	var r [][4]int
	for a := 0; a < 16; a++ {
		for b := a + 1; b < 16; b++ {
			for c := b + 1; c < 16; c++ {
				for d := c + 1; d < 16; d++ {
					r = append(r, [4]int{a, b, c, d})
				}
			}
		}
	}
	return r
}

func a4Decode(region int, id uint32, combos [][4]int) []a4Feat {
	ci := int(id >> 12)
	pa := int(id & 0xFFF)
	var f []a4Feat
	for i := 0; i < 4; i++ {
		f = append(f, a4Feat{a4Pieces[(pa>>(3*i))&7], Square(region*16 + combos[ci][i])})
	}
	return f
}

func a4List(region int, combos [][4]int) ([]uint64, []uint32) {
	keys := make([]uint64, 0, len(combos)*4096)
	ids := make([]uint32, 0, len(combos)*4096)
	for ci, c := range combos {
		for pa := 0; pa < 4096; pa++ {
			var k Key
			for i := 0; i < 4; i++ {
				k ^= zobristBase.pieces[a4Pieces[(pa>>(3*i))&7]][Square(region*16+c[i])]
			}
			keys = append(keys, uint64(k))
			ids = append(ids, uint32(ci)<<12|uint32(pa))
		}
	}
	return keys, ids
}

type a4Pair struct {
	key    uint64
	i1, i2 uint32
}

const a4Bits = 22

func a4Merge(k1 []uint64, id1 []uint32, k2 []uint64, id2 []uint32) []a4Pair {
	mask := uint64(1)<<a4Bits - 1
	// bucket list 2
	cnt := make([]uint32, (1<<a4Bits)+1)
	for _, k := range k2 {
		cnt[(k&mask)+1]++
	}
	for i := 1; i < len(cnt); i++ {
		cnt[i] += cnt[i-1]
	}
	pos := make([]uint32, len(cnt))
	copy(pos, cnt)
	order := make([]uint32, len(k2))
	for i, k := range k2 {
		b := k & mask
		order[pos[b]] = uint32(i)
		pos[b]++
	}
	var out []a4Pair
	for i, k := range k1 {
		b := k & mask
		for j := cnt[b]; j < cnt[b+1]; j++ {
			o := order[j]
			out = append(out, a4Pair{k ^ k2[o], id1[i], id2[o]})
		}
	}
	return out
}

func a4Fen(feats []a4Feat, wk, bk Square, stm string) string {
	var board [64]Piece
	for _, f := range feats {
		board[f.sq] = f.pc
	}
	board[wk] = WhiteKing
	board[bk] = BlackKing
	var sb strings.Builder
	for r := 7; r >= 0; r-- {
		empty := 0
		for f := 0; f < 8; f++ {
			pc := board[r*8+f]
			if pc == PieceNone {
				empty++
				continue
			}
			if empty > 0 {
				sb.WriteString(fmt.Sprint(empty))
				empty = 0
			}
			sb.WriteString(pc.String())
		}
		if empty > 0 {
			sb.WriteString(fmt.Sprint(empty))
		}
		if r > 0 {
			sb.WriteString("/")
		}
	}
	return sb.String() + " " + stm + " - - 0 1"
}

func TestAudit4_FindCollisions(t *testing.T) {
	if os.Getenv("AUDIT_FIND") == "" {
		t.Skip("set AUDIT_FIND=1 to run the collision finder")
	}
	combos := a4Combos()
	var keys [4][]uint64
	var ids [4][]uint32
	for r := 0; r < 4; r++ {
		keys[r], ids[r] = a4List(r, combos)
	}
	t.Logf("lists of %d elements", len(keys[0]))
	l12 := a4Merge(keys[0], ids[0], keys[1], ids[1])
	l34 := a4Merge(keys[2], ids[2], keys[3], ids[3])
	t.Logf("merged: %d %d", len(l12), len(l34))
	sort.Slice(l12, func(i, j int) bool { return l12[i].key < l12[j].key })
	found := 0
	for _, e := range l34 {
		i := sort.Search(len(l12), func(i int) bool { return l12[i].key >= e.key })
		for ; i < len(l12) && l12[i].key == e.key; i++ {
			g := [4][]a4Feat{a4Decode(0, l12[i].i1, combos), a4Decode(1, l12[i].i2, combos), a4Decode(2, e.i1, combos), a4Decode(3, e.i2, combos)}
			found++
			a4Candidates(t, found, g)
		}
	}
	t.Logf("found %d zero sums of 16 piece-square keys", found)
}

// builds legal position pairs from a zero sum: position A gets the pieces of
// some of the 4 groups, position B the pieces of the other groups, the kings
// are common. White to move in both, no king attacked.
func a4Candidates(t *testing.T, n int, g [4][]a4Feat) {
	splits := [][2][]int{{{0, 1}, {2, 3}}, {{0, 2}, {1, 3}}, {{0, 3}, {1, 2}}}
	for _, sp := range splits {
		var fa, fb []a4Feat
		used := map[Square]bool{}
		for _, gi := range sp[0] {
			fa = append(fa, g[gi]...)
		}
		for _, gi := range sp[1] {
			fb = append(fb, g[gi]...)
		}
		for _, f := range append(append([]a4Feat{}, fa...), fb...) {
			used[f.sq] = true
		}
		count := 0
		for wk := SqA1; wk <= SqH8 && count < 2; wk++ {
			if used[wk] {
				continue
			}
			for bk := SqA1; bk <= SqH8 && count < 2; bk++ {
				if used[bk] || bk == wk || SquareDistance(wk, bk) < 2 {
					continue
				}
				pa, ea := NewPositionFen(a4Fen(fa, wk, bk, "w"))
				pb, eb := NewPositionFen(a4Fen(fb, wk, bk, "w"))
				if ea != nil || eb != nil {
					continue
				}
				if pa.ZobristKey() != pb.ZobristKey() {
					t.Fatalf("keys differ?!")
				}
				if pa.IsAttacked(wk, Black) || pa.IsAttacked(bk, White) || pb.IsAttacked(wk, Black) || pb.IsAttacked(bk, White) {
					continue
				}
				// black king came from k2
				for k2 := SqA1; k2 <= SqH8; k2++ {
					if used[k2] || k2 == wk || k2 == bk || SquareDistance(k2, bk) != 1 || SquareDistance(k2, wk) < 2 {
						continue
					}
					qa, _ := NewPositionFen(a4Fen(fa, wk, k2, "b"))
					qb, _ := NewPositionFen(a4Fen(fb, wk, k2, "b"))
					if qa.IsAttacked(k2, White) || qb.IsAttacked(k2, White) || qa.IsAttacked(wk, Black) || qb.IsAttacked(wk, Black) {
						continue
					}
					fmt.Printf("CAND %d|%s|%s|%s%s\n", n, qa.StringFen(), qb.StringFen(), k2.String(), bk.String())
					count++
					break
				}
			}
		}
	}
}

package uci

// AUDIT finding 1 (property C12): a legal game of exactly 512 plies (the
// documented maximum of the position command) followed by "go infinite"
// (or any go which lets the iterations run deep) kills the engine:
//
//	panic: runtime error: index out of range [641] with length 641
//	position.(*Position).DoMove            position.go:221
//	search.(*Search).getPVLine             alphabeta.go:1115
//	search.(*Search).search (TT cut)       alphabeta.go:260
//
// No bestmove for the go, no readyok for any later isready, stop is never
// answered - the process is gone.
//
// run: go test ./internal/uci/ -run TestAudit1 -count=1 -v

import (
	"fmt"
	"math/rand"
	"os"
	"os/exec"
	"strings"
	"testing"
	"time"

	"github.com/frankkopp/FrankyGo/internal/movegen"
	"github.com/frankkopp/FrankyGo/internal/position"
	. "github.com/frankkopp/FrankyGo/internal/types"
)

// audit1Game plays a legal game of `plies` plies from a K+P v K+P position
// using the engine's own legal move generator: no captures, no position
// twice (so no repetition at all), both pawns run and promote to queens. The
// last pawn move is made `tail` plies before the end, all pawn moves are 35
// plies apart (the fifty-move clock never expires during the game and is
// `tail` in the final position).
func audit1Game(seed int64, plies, tail int) (string, []string, bool) {
	fen := "4k3/7p/8/8/8/8/P7/4K3 w - - 0 1"
	p, _ := position.NewPositionFen(fen)
	mg := movegen.NewMoveGen()
	rnd := rand.New(rand.NewSource(seed))
	seen := map[position.Key]bool{p.ZobristKey(): true}
	last := plies - tail
	pawnPly := map[int]bool{}
	for i := 0; i < 12; i++ {
		pawnPly[last-35*(11-i)] = true
	}
	var moves []string
	for ply := 1; ply <= plies; ply++ {
		legal := mg.GenerateLegalMoves(p, movegen.GenAll).Clone()
		var cands []Move
		for _, m := range *legal {
			isPawn := p.GetPiece(m.From()).TypeOf() == Pawn
			if isPawn != pawnPly[ply] || p.IsCapturingMove(m) {
				continue
			}
			if m.MoveType() == Promotion && !strings.HasSuffix(strings.ToLower(m.StringUci()), "q") {
				continue
			}
			// the kings keep off the files of the pawns
			if p.GetPiece(m.From()).TypeOf() == King && (m.To().FileOf() == FileA || m.To().FileOf() == FileH) {
				continue
			}
			p.DoMove(m)
			ok := !seen[p.ZobristKey()] && mg.HasLegalMove(p)
			p.UndoMove()
			if ok {
				cands = append(cands, m)
			}
		}
		if len(cands) == 0 {
			return "", nil, false
		}
		m := cands[rnd.Intn(len(cands))]
		p.DoMove(m)
		seen[p.ZobristKey()] = true
		moves = append(moves, strings.ToLower(m.StringUci()))
	}
	return fen, moves, true
}

// the engine session runs in a child process: the violation is a panic in
// the search go routine which takes the whole process down.
func TestAudit1_LongGameDeepIterationKillsEngine(t *testing.T) {
	if os.Getenv("AUDIT1_CHILD") == "1" {
		audit1Child(t)
		return
	}
	// analysis of the final position and an ordinary timed move
	for _, goCmd := range []string{"go infinite", "go wtime 120000 btime 120000 winc 1000 binc 1000"} {
		goCmd := goCmd
		t.Run(goCmd, func(t *testing.T) { audit1Parent(t, goCmd) })
	}
}

func audit1Parent(t *testing.T, goCmd string) {
	cmd := exec.Command(os.Args[0], "-test.run=TestAudit1_LongGameDeepIterationKillsEngine", "-test.v")
	cmd.Env = append(os.Environ(), "AUDIT1_CHILD=1", "AUDIT1_GO="+goCmd)
	outBytes, err := cmd.CombinedOutput()
	output := string(outBytes)
	var keep []string
	for _, l := range strings.Split(output, "\n") {
		if strings.HasPrefix(l, "AUDIT1") || strings.HasPrefix(l, "panic") || strings.Contains(l, "alphabeta.go") || strings.Contains(l, "position.go") {
			keep = append(keep, l)
		}
	}
	t.Log("\n" + strings.Join(keep, "\n"))
	if err != nil || strings.Contains(output, "panic:") || !strings.Contains(output, "AUDIT1 OK") {
		t.Fatalf("engine process died / session failed: %v", err)
	}
}

func audit1Child(t *testing.T) {
	var fen string
	var moves []string
	ok := false
	for seed := int64(1); seed < 200 && !ok; seed++ {
		fen, moves, ok = audit1Game(seed, 512, 98)
	}
	if !ok {
		t.Fatal("no game generated")
	}
	s := newAuditSession(t)
	s.send("setoption name Hash value 16")
	s.send("setoption name Use_Book value false")
	s.sync(20 * time.Second)
	s.send("position fen " + fen + " moves " + strings.Join(moves, " "))
	s.sync(time.Second)
	fmt.Printf("AUDIT1 plies=%d position=%s\n", len(moves), s.u.myPosition.StringFen())
	if s.count("info string Command 'position'") > 0 {
		fmt.Println("AUDIT1 position command refused:", s.last("info string Command"))
		t.Fatal("position refused")
	}
	goCmd := os.Getenv("AUDIT1_GO")
	s.send(goCmd)
	if goCmd == "go infinite" {
		time.Sleep(5 * time.Second)
		if !s.sync(2 * time.Second) {
			fmt.Println("AUDIT1 no readyok during the search")
			t.Fatal("no readyok")
		}
		s.send("stop")
	}
	if !s.waitCount("bestmove", 1, 12*time.Second) {
		fmt.Println("AUDIT1 no bestmove")
		t.Fatal("no bestmove")
	}
	fmt.Println("AUDIT1 OK", s.last("bestmove"))
	s.quit()
}

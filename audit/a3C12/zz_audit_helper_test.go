package uci

// helper for the zz_audit_*_test.go files: an engine session over pipes
// with a thread safe, time stamped transcript of everything the engine says.

import (
	"bufio"
	"io"
	"strings"
	"sync"
	"testing"
	"time"

	"github.com/frankkopp/FrankyGo/internal/config"
)

type auditLine struct {
	at   time.Time
	text string
}

type auditSession struct {
	t     *testing.T
	u     *UciHandler
	in    *io.PipeWriter
	mu    sync.Mutex
	lines []auditLine
	cond  *sync.Cond
	done  chan struct{}
}

type auditWriter struct{ s *auditSession }

func (w auditWriter) Write(p []byte) (int, error) {
	now := time.Now()
	w.s.mu.Lock()
	for _, l := range strings.Split(strings.TrimRight(string(p), "\n"), "\n") {
		w.s.lines = append(w.s.lines, auditLine{now, l})
	}
	w.s.cond.Broadcast()
	w.s.mu.Unlock()
	return len(p), nil
}

func newAuditSession(t *testing.T) *auditSession {
	config.Setup()
	s := &auditSession{t: t, done: make(chan struct{})}
	s.cond = sync.NewCond(&s.mu)
	pr, pw := io.Pipe()
	s.in = pw
	s.u = NewUciHandler()
	s.u.InIo = bufio.NewScanner(pr)
	s.u.OutIo = bufio.NewWriter(auditWriter{s})
	go func() {
		defer close(s.done)
		s.u.Loop()
	}()
	return s
}

// send writes a command line; returns when the engine loop has taken the line
// (not when it has been processed).
func (s *auditSession) send(cmd string) {
	_, err := s.in.Write([]byte(cmd + "\n"))
	if err != nil {
		s.t.Fatalf("write: %v", err)
	}
}

func (s *auditSession) quit() {
	go func() { _, _ = s.in.Write([]byte("stop\nquit\n")) }()
	select {
	case <-s.done:
	case <-time.After(3 * time.Second):
	}
}

func (s *auditSession) count(prefix string) int {
	s.mu.Lock()
	defer s.mu.Unlock()
	n := 0
	for _, l := range s.lines {
		if strings.HasPrefix(l.text, prefix) {
			n++
		}
	}
	return n
}

// waitCount waits until at least n lines with the prefix have been seen.
func (s *auditSession) waitCount(prefix string, n int, timeout time.Duration) bool {
	deadline := time.Now().Add(timeout)
	for time.Now().Before(deadline) {
		if s.count(prefix) >= n {
			return true
		}
		time.Sleep(time.Millisecond)
	}
	return s.count(prefix) >= n
}

// sync sends isready and waits for the next readyok.
func (s *auditSession) sync(timeout time.Duration) bool {
	n := s.count("readyok")
	s.send("isready")
	return s.waitCount("readyok", n+1, timeout)
}

func (s *auditSession) last(prefix string) string {
	s.mu.Lock()
	defer s.mu.Unlock()
	for i := len(s.lines) - 1; i >= 0; i-- {
		if strings.HasPrefix(s.lines[i].text, prefix) {
			return s.lines[i].text
		}
	}
	return ""
}

func (s *auditSession) transcript() string {
	s.mu.Lock()
	defer s.mu.Unlock()
	var b strings.Builder
	for _, l := range s.lines {
		b.WriteString(l.text)
		b.WriteString("\n")
	}
	return b.String()
}

package uci

// AUDIT finding 2 (property C12): go commands which are valid UCI but carry
// no limit the engine knows as "effective" are refused with an info string -
// no search is started and no bestmove is ever sent for them, not even after
// stop. The UCI specification makes every sub command of go optional ("if one
// command is not sent its value should be interpreted as it would not
// influence the search"): a bare "go" or "go searchmoves e2e4" is a search
// without limits which is ended by stop.
//
// run: go test ./internal/uci/ -run TestAudit2 -count=1 -v

import (
	"testing"
	"time"
)

func TestAudit2_GoWithoutLimitGetsNoBestmove(t *testing.T) {
	for _, goCmd := range []string{
		"go",
		"go searchmoves e2e4 d2d4",
		"go winc 1000 binc 1000",
		"go movestogo 20",
	} {
		t.Run(goCmd, func(t *testing.T) {
			s := newAuditSession(t)
			defer s.quit()
			s.send("setoption name Hash value 1")
			s.send("setoption name Use_Book value false")
			if !s.sync(20 * time.Second) {
				t.Fatal("no readyok")
			}
			s.send("position startpos")
			s.send(goCmd)
			time.Sleep(200 * time.Millisecond)
			if n := s.count("bestmove"); n != 0 {
				t.Fatalf("bestmove before stop: %d", n)
			}
			s.send("stop")
			if !s.waitCount("bestmove", 1, 2*time.Second) {
				t.Errorf("%q + stop: no bestmove within 2s. Engine said: %q", goCmd, s.last("info string"))
			}
		})
	}
}

// Same root cause family (a go which is refused instead of answered): a
// clock of exactly 0 ms for the side to move is refused although the go
// carries an increment (or the other limits) to search with. Borderline: a
// GUI normally ends the game when a clock reaches 0.
func TestAudit2b_ZeroClockGetsNoBestmove(t *testing.T) {
	s := newAuditSession(t)
	defer s.quit()
	s.send("setoption name Hash value 1")
	s.send("setoption name Use_Book value false")
	if !s.sync(20 * time.Second) {
		t.Fatal("no readyok")
	}
	s.send("position startpos")
	s.send("go wtime 0 btime 60000 winc 1000 binc 1000")
	if !s.waitCount("bestmove", 1, 3*time.Second) {
		t.Errorf("no bestmove within 3s. Engine said: %q", s.last("info string"))
	}
}

package uci

import (
	"strings"
	"testing"

	"github.com/frankkopp/FrankyGo/internal/config"
)

// C16 audit observation 5 (garbage silently ignored - allowed by the property
// "reports or ignores", listed for completeness): parts of a malformed
// 'position' command are dropped without any message and the rest is executed.
func TestZZAudit5_PositionCommandDropsTokensSilently(t *testing.T) {
	config.Settings.Search.TTSize = 2
	config.Settings.Search.UseBook = false
	for _, cmd := range []string{
		// 'moves' keyword forgotten: the moves become fen fields 7.. and are dropped
		"position fen rnbqkbnr/pppppppp/8/8/8/8/PPPPPPPP/RNBQKBNR w KQkq - 0 1 e2e4 e7e5",
		// a second 'moves' keyword ends the move list (uci.go:458)
		"position startpos moves e2e4 moves e7e5",
	} {
		u := NewUciHandler()
		u.Command("position startpos moves d2d4")
		before := u.myPosition.StringFen()
		out := u.Command(cmd)
		after := u.myPosition.StringFen()
		if !strings.Contains(out, "info string") && after != before {
			t.Errorf("%q: no report, position set to %q", cmd, after)
		}
	}
}

package position

import "testing"

// C16 audit finding 3 (garbage accepted, no crash): the colour field of a
// fen is checked with "^[w|b]$" (position.go:957) - inside a character
// class '|' is a literal, so "|" is accepted as colour (and read as white).
func TestZZAudit3_FenColourBar(t *testing.T) {
	p, err := NewPositionFen("rnbqkbnr/pppppppp/8/8/8/8/PPPPPPPP/RNBQKBNR | KQkq - 0 1")
	if err == nil {
		t.Errorf("fen with colour '|' accepted as %q", p.StringFen())
	}
}

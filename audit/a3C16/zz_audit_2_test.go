package uci

import (
	"strings"
	"testing"

	"github.com/frankkopp/FrankyGo/internal/config"
)

// C16 audit finding 2: an invalid (or missing) value of a check option is
// neither reported nor ignored: the option is silently switched off.
// Root cause: all check option handlers do "v, _ := strconv.ParseBool(...)"
// (ucioption.go:237ff) - the error is dropped and v is false.
func TestZZAudit2_InvalidBoolOptionValueSwitchesOptionOff(t *testing.T) {
	config.Settings.Search.TTSize = 2
	config.Settings.Search.UseBook = false
	u := NewUciHandler()
	defer func() {
		config.Settings.Search.UseTT = true
		config.Settings.Search.UseQuiescence = true
		config.Settings.Search.UsePonder = true
	}()
	cases := []struct {
		cmd string
		get func() bool
	}{
		{"setoption name Use_Hash value maybe", func() bool { return config.Settings.Search.UseTT }},
		{"setoption name Quiescence value tru", func() bool { return config.Settings.Search.UseQuiescence }},
		{"setoption name Ponder", func() bool { return config.Settings.Search.UsePonder }},
		{"setoption name Ponder value", func() bool { return config.Settings.Search.UsePonder }},
	}
	for _, c := range cases {
		config.Settings.Search.UseTT = true
		config.Settings.Search.UseQuiescence = true
		config.Settings.Search.UsePonder = true
		out := u.Command(c.cmd)
		if !c.get() || !strings.Contains(out, "info string") {
			t.Errorf("%q: option is now %v, output %q - want option unchanged (true) and a report", c.cmd, c.get(), out)
		}
	}
}

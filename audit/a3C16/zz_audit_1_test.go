package uci

import (
	"strings"
	"testing"

	"github.com/frankkopp/FrankyGo/internal/config"
)

// C16 audit finding 1: a malformed move token inside an otherwise valid
// command is neither reported nor ignored - a part of it is played.
// Root cause: movegen.regexUciMove is not anchored (movegen.go:458) and
// GetMoveFromUci uses FindStringSubmatch (movegen.go:467).
func TestZZAudit1_MalformedMoveTokenIsPlayed(t *testing.T) {
	config.Settings.Search.TTSize = 2
	config.Settings.Search.UseBook = false
	for _, bad := range []string{"d2d4e7e5", "xd2d4", "1.d2d4", "d2d4!?", "Ng1f3", "d2d4d2d4d2d4"} {
		u := NewUciHandler()
		// the last validly set position
		u.Command("position startpos moves e2e4")
		valid := u.myPosition.StringFen()
		out := u.Command("position startpos moves " + bad)
		got := u.myPosition.StringFen()
		reported := strings.Contains(out, "info string")
		if got != valid || !reported {
			t.Errorf("token %q: reported=%v position now %q - want a report and the last valid position %q", bad, reported, got, valid)
		}
	}
	// same root cause in 'go searchmoves'
	u := NewUciHandler()
	limits, err := u.readSearchLimits(strings.Fields("go depth 1 searchmoves xe2e4yy"))
	if !err && limits != nil && limits.Moves.Len() > 0 {
		t.Errorf("go searchmoves xe2e4yy: accepted as %s", limits.Moves.StringUci())
	}
}

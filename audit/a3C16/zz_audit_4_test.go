package uci

import (
	"bufio"
	"strings"
	"sync"
	"testing"
	"time"

	"github.com/frankkopp/FrankyGo/internal/config"
)

type zzBuf struct {
	mu sync.Mutex
	sb strings.Builder
}

func (b *zzBuf) Write(p []byte) (int, error) {
	b.mu.Lock()
	defer b.mu.Unlock()
	return b.sb.Write(p)
}
func (b *zzBuf) String() string {
	b.mu.Lock()
	defer b.mu.Unlock()
	return b.sb.String()
}

func zzSearch(t *testing.T, u *UciHandler, cmds ...string) string {
	b := &zzBuf{}
	u.OutIo = bufio.NewWriter(b)
	for _, c := range cmds {
		u.handleReceivedCommand(c)
	}
	end := time.Now().Add(20 * time.Second)
	for time.Now().Before(end) && !strings.Contains(b.String(), "bestmove") {
		time.Sleep(2 * time.Millisecond)
	}
	u.mySearch.WaitWhileSearching()
	if !strings.Contains(b.String(), "bestmove") {
		t.Fatalf("no bestmove: %s", b.String())
	}
	return b.String()
}

// C16 audit observation 4 (wrong answer, no crash): a LEGAL position (all 8
// pawns promoted to queens, all 16 white men on the board, accepted by the
// material check uci.go:422-438) has a static evaluation beyond ValueMax
// (10.000). Every root move fails high against beta=ValueMax at once
// (alphabeta.go:140) - the search is blind and misses a mate in 1.
func TestZZAudit4_LegalMaxMaterialSearchIsBlind(t *testing.T) {
	config.Settings.Search.TTSize = 2
	config.Settings.Search.UseBook = false
	u := NewUciHandler()
	fen := "8/7k/8/8/8/8/KQRRBBNN/QQQQQQQQ w - - 0 1"
	// b2g7 is mate
	out := zzSearch(t, u, "position fen "+fen+" moves b2g7", "go depth 1")
	if !strings.Contains(out, "mate position") {
		t.Fatalf("test premise wrong - b2g7 is not mate: %s", out)
	}
	out = zzSearch(t, u, "position fen "+fen, "go depth 6")
	if strings.Contains(out, "Command 'position'") {
		t.Fatalf("position not accepted: %s", out)
	}
	if !strings.Contains(out, "bestmove b2g7") {
		lines := strings.Split(strings.TrimSpace(out), "\n")
		t.Errorf("depth 6 search misses the mate in 1 (b2g7): %s | %s", lines[len(lines)-2], lines[len(lines)-1])
	}
}

package uci

import (
	"strings"
	"testing"

	"github.com/frankkopp/FrankyGo/internal/config"
)

// C16 audit finding 6: a rejected command changes the position the handler
// holds. Looking up a move (uci.go:525 'go searchmoves', uci.go:459 'position
// ... moves') runs DoMove/UndoMove for every pseudo legal move on the held
// position (IsLegalMove). putPiece/removePiece clip gamePhase at 24 / 0
// (position.go:859, 885), so DoMove/UndoMove of a promotion is no exact
// inverse when the phase is above 20: the game phase of the held position
// sinks (fen and hash key stay the same, the evaluation changes).
func TestZZAudit6_RejectedCommandChangesHeldPosition(t *testing.T) {
	config.Settings.Search.TTSize = 2
	config.Settings.Search.UseBook = false
	u := NewUciHandler()
	u.Command("position fen rnbqkbn1/pppppppP/8/8/8/8/PPPPPPP1/RNBQKBNR w KQq - 0 1")
	before := u.myPosition.GamePhase()
	out := u.Command("go depth 1 searchmoves a2a5") // a2a5 is no legal move: command is rejected
	if !strings.Contains(out, "malformed") {
		t.Fatalf("premise: command should be rejected: %q", out)
	}
	if after := u.myPosition.GamePhase(); after != before {
		t.Errorf("game phase of the held position was %d, after a rejected command it is %d (fen %s)", before, after, u.myPosition.StringFen())
	}
}

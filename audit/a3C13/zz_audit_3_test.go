package uci

import (
	"bufio"
	"strings"
	"testing"
	"time"

	"github.com/frankkopp/FrankyGo/internal/config"
)

// C13 audit - category (b) garbage-in behaviour, NOT counted as violation of the
// property as stated (the quantifier names subsets of the LEGAL root moves and
// consistent limits). Recorded because the engine's reaction is unfriendly.
//
// run: go test ./internal/uci/ -run TestZZAudit3 -count=1 -v
func TestZZAudit3_GarbageIn(t *testing.T) {
	old := config.Settings.Search
	defer func() { config.Settings.Search = old }()
	config.Settings.Search.UseBook = false
	config.Settings.Search.TTSize = 16

	u := NewUciHandler()
	buf := &zzA2Buf{}
	u.OutIo = bufio.NewWriter(buf)
	u.handleReceivedCommand("setoption name Use_Book value false")
	u.handleReceivedCommand("isready")

	wait := func(d time.Duration) bool {
		deadline := time.Now().Add(d)
		for time.Now().Before(deadline) {
			if strings.Contains(buf.String(), "bestmove") {
				return true
			}
			time.Sleep(time.Millisecond)
		}
		return false
	}

	// (b1) one illegal move in the searchmoves list: the whole go command is
	// dropped ("Invalid subcommand: e7e5"), no search, no bestmove.
	buf.Reset()
	u.handleReceivedCommand("position startpos")
	u.handleReceivedCommand("go depth 2 searchmoves e2e4 e7e5 d2d4")
	if !wait(2 * time.Second) {
		t.Errorf("(b1) 'go depth 2 searchmoves e2e4 e7e5 d2d4' is never answered: %s", strings.TrimSpace(buf.String()))
	}
	u.mySearch.StopSearch()

	// (b2) movetime together with a smaller clock: movetime wins, the clock is ignored
	buf.Reset()
	u.handleReceivedCommand("position startpos")
	start := time.Now()
	u.handleReceivedCommand("go movetime 1500 wtime 300 btime 300")
	wait(5 * time.Second)
	if el := time.Since(start); el > 300*time.Millisecond {
		t.Errorf("(b2) 'go movetime 1500 wtime 300 btime 300' used %s with 300ms on the clock", el)
	}
	u.mySearch.StopSearch()
}

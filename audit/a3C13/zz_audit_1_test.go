package search

import (
	"testing"
	"time"

	"github.com/frankkopp/FrankyGo/internal/config"
	"github.com/frankkopp/FrankyGo/internal/position"
)

// C13 audit finding 1 (clock budget clause):
// the first search after a book move doubles its budget (search.go:553-558,
// addExtraTime(2.0)). The doubled budget is only capped at 0.9 * clock, so the
// time allotted to this move, repeated for the announced moves-to-go, does NOT
// fit into the remaining time plus the increments.
//
// run: go test ./internal/search/ -run TestZZAudit1 -count=1 -v
func TestZZAudit1_BudgetAfterBookMoveTimesMovesToGoExceedsClock(t *testing.T) {
	old := config.Settings.Search
	defer func() { config.Settings.Search = old }()
	config.Settings.Search.UseBook = true
	config.Settings.Search.BookPath = "./assets/books"
	config.Settings.Search.BookFile = "book_smalltest.txt"
	config.Settings.Search.BookFormat = "Simple"
	config.Settings.Search.TTSize = 16

	s := NewSearch()

	// 1. a book move is played under clock time control
	p := position.NewPosition()
	s.StartSearch(*p, Limits{TimeControl: true, WhiteTime: 60 * time.Second, BlackTime: 60 * time.Second, MovesToGo: 40})
	s.WaitWhileSearching()
	if !s.LastSearchResult().BookMove {
		t.Skip("no book move available - book file missing?")
	}

	// 2. the game leaves the book: 2 s on the clock, no increment, 4 moves to go
	p2, _ := position.NewPositionFen("r3k2r/p1ppqpb1/bn2pnp1/3PN3/1p2P3/2N2Q1p/PPPBBPPP/R3K2R w KQkq - 0 1")
	clock := 2 * time.Second
	inc := time.Duration(0)
	mtg := 4
	start := time.Now()
	s.StartSearch(*p2, Limits{TimeControl: true, WhiteTime: clock, BlackTime: clock, WhiteInc: inc, BlackInc: inc, MovesToGo: mtg})
	s.WaitWhileSearching()
	elapsed := time.Since(start)

	allotted := s.timeLimit + s.extraTime
	t.Logf("clock %s inc %s movestogo %d: allotted %s (timeLimit %s + extra %s), elapsed %s",
		clock, inc, mtg, allotted, s.timeLimit, s.extraTime, elapsed)

	if allotted > clock {
		t.Errorf("allotted %s exceeds the clock %s", allotted, clock)
	}
	budgetForAll := clock + time.Duration(mtg)*inc
	if time.Duration(mtg)*allotted > budgetForAll {
		t.Errorf("C13 violated: allotted %s x movestogo %d = %s does not fit into remaining time plus increments %s",
			allotted, mtg, time.Duration(mtg)*allotted, budgetForAll)
	}
	if time.Duration(mtg)*elapsed > budgetForAll {
		t.Errorf("C13 violated (measured): the move took %s; repeated for %d moves to go = %s > %s",
			elapsed, mtg, time.Duration(mtg)*elapsed, budgetForAll)
	}
}

package uci

import (
	"bufio"
	"strings"
	"sync"
	"testing"
	"time"

	"github.com/frankkopp/FrankyGo/internal/config"
)

type zzA2Buf struct {
	mu sync.Mutex
	sb strings.Builder
}

func (b *zzA2Buf) Write(p []byte) (int, error) {
	b.mu.Lock()
	defer b.mu.Unlock()
	return b.sb.Write(p)
}
func (b *zzA2Buf) String() string {
	b.mu.Lock()
	defer b.mu.Unlock()
	return b.sb.String()
}
func (b *zzA2Buf) Reset() {
	b.mu.Lock()
	defer b.mu.Unlock()
	b.sb.Reset()
}

// C13 audit finding 2 (depth / nodes clause, borderline - combined limits):
// whenever a go command carries a clock or a movetime next to the depth or node
// limit (cutechess and Arena send 'go wtime .. btime .. depth N' for depth
// limited games) and the book knows the position, run() answers with a book move
// and does not search at all: 0 iterations instead of N although the root is
// neither terminal nor a single-move position (search.go:355-384, 412-419).
//
// run: go test ./internal/uci/ -run TestZZAudit2 -count=1 -v
func TestZZAudit2_DepthLimitedSearchWithClockPlaysBookMoveWithoutIterations(t *testing.T) {
	old := config.Settings.Search
	defer func() { config.Settings.Search = old }()
	config.Settings.Search.UseBook = true
	config.Settings.Search.BookPath = "./assets/books"
	config.Settings.Search.BookFile = "book_smalltest.txt"
	config.Settings.Search.BookFormat = "Simple"
	config.Settings.Search.TTSize = 16

	u := NewUciHandler()
	buf := &zzA2Buf{}
	u.OutIo = bufio.NewWriter(buf)
	u.handleReceivedCommand("setoption name Use_Book value true")
	u.handleReceivedCommand("isready")

	for _, cmd := range []string{
		"go depth 4 wtime 60000 btime 60000",
		"go nodes 5000 movetime 2000",
	} {
		buf.Reset()
		u.handleReceivedCommand("position startpos")
		u.handleReceivedCommand(cmd)
		deadline := time.Now().Add(5 * time.Second)
		for !strings.Contains(buf.String(), "bestmove") && time.Now().Before(deadline) {
			time.Sleep(time.Millisecond)
		}
		u.mySearch.WaitWhileSearching()
		out := buf.String()
		if !strings.Contains(out, "bestmove") {
			t.Fatalf("%s: no bestmove", cmd)
		}
		res := u.mySearch.LastSearchResult()
		iterations := strings.Count(out, "info depth")
		t.Logf("%s -> %s | iterations reported %d, result depth %d, nodes %d, book move %v",
			cmd, strings.TrimSpace(out[strings.Index(out, "bestmove"):]), iterations, res.SearchDepth, u.mySearch.NodesVisited(), res.BookMove)
		if strings.Contains(cmd, "depth 4") && res.SearchDepth != 4 {
			t.Errorf("C13 violated: '%s' on the start position (20 legal moves, not terminal) completed %d iterations instead of 4 (book move %v)",
				cmd, res.SearchDepth, res.BookMove)
		}
	}
}

package uci

import (
	"strings"
	"testing"
	"time"
)

// Finding 1: the non-standard but accepted command "perft <depth>" runs the
// perft in an unguarded goroutine. A depth beyond the position history
// (MaxMoves+MaxDepth+1 = 641 entries) overruns Position.history - the panic
// happens in a goroutine and terminates the whole engine process.
// Run: go test ./internal/uci -run TestAudit1 -count=1
func TestAudit1PerftDepthBeyondHistory(t *testing.T) {
	uh := NewUciHandler()
	uh.Command("perft 700")
	// if the engine survives it must still answer isready
	time.Sleep(2 * time.Second)
	uh.Command("stop")
	if r := uh.Command("isready"); !strings.Contains(r, "readyok") {
		t.Fatalf("no readyok: %q", r)
	}
}

// Same root cause, other symptom: depth+1 overflows / is far too large for
// make([]*Movegen, depth+1) -> "makeslice: len out of range".
func TestAudit1PerftHugeDepth(t *testing.T) {
	uh := NewUciHandler()
	uh.Command("perft 9223372036854775807")
	time.Sleep(1 * time.Second)
	uh.Command("stop")
	if r := uh.Command("isready"); !strings.Contains(r, "readyok") {
		t.Fatalf("no readyok: %q", r)
	}
}

package uci

import (
	"strings"
	"testing"
	"time"

	"github.com/frankkopp/FrankyGo/internal/config"
)

// Finding 2: "setoption name Use_Hash value true" while a search is running
// which was started with Use_Hash=false. The search checks the global
// Settings.Search.UseTT on every node but the table (s.tt) was never created
// for this search -> nil pointer dereference in the search goroutine which
// terminates the engine.
// Run: go test ./internal/uci -run TestAudit2 -count=1
func TestAudit2UseHashSwitchedOnDuringSearch(t *testing.T) {
	config.Settings.Search.UseBook = false
	uh := NewUciHandler()
	uh.Command("setoption name Use_Hash value false")
	uh.Command("isready")
	uh.Command("position startpos")
	uh.Command("go infinite")
	time.Sleep(200 * time.Millisecond)
	uh.Command("setoption name Use_Hash value true")
	time.Sleep(500 * time.Millisecond)
	uh.Command("stop")
	if r := uh.Command("isready"); !strings.Contains(r, "readyok") {
		t.Fatalf("no readyok: %q", r)
	}
}

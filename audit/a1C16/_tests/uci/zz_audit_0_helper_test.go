package uci

import (
	"bufio"
	"strings"
	"sync"
	"time"
)

// helper for the zz_audit_*_test.go files: a goroutine safe output buffer
type auditBuf struct {
	mu sync.Mutex
	sb strings.Builder
}

func (b *auditBuf) Write(p []byte) (int, error) {
	b.mu.Lock()
	defer b.mu.Unlock()
	return b.sb.Write(p)
}

func (b *auditBuf) String() string {
	b.mu.Lock()
	defer b.mu.Unlock()
	return b.sb.String()
}

func auditHandler() (*UciHandler, *auditBuf) {
	uh := NewUciHandler()
	buf := &auditBuf{}
	uh.OutIo = bufio.NewWriter(buf)
	return uh, buf
}

// waits until the output holds n "bestmove" lines and returns the last one ("" on timeout)
func auditWaitBest(buf *auditBuf, n int, timeout time.Duration) string {
	dl := time.Now().Add(timeout)
	for strings.Count(buf.String(), "bestmove") < n {
		if time.Now().After(dl) {
			return ""
		}
		time.Sleep(5 * time.Millisecond)
	}
	s := buf.String()
	s = s[strings.LastIndex(s, "bestmove"):]
	if i := strings.Index(s, "\n"); i >= 0 {
		s = s[:i]
	}
	return s
}

package uci

import (
	"strings"
	"testing"
	"time"

	"github.com/frankkopp/FrankyGo/internal/config"
)

// Finding 3: a FEN which is syntactically fine (8 ranks x 8 squares, one king
// each, side not to move not in check) but holds more pieces than a chess set
// is accepted by position.NewPositionFen and by the "position" command. When
// the side to move is more than ValueInf (15.000 cp, ~17 queens) behind, every
// root move scores below ValueNA (-15.001), no root move is ever stored in
// pv[0] and iterativeDeepening reads pv[0].At(0) -> panic "MoveSlice: Index out
// of bounds" in the search goroutine which terminates the engine.
// Run: go test ./internal/uci -run TestAudit3 -count=1
func TestAudit3AcceptedFenCrashesSearch(t *testing.T) {
	config.Settings.Search.UseBook = false
	uh, buf := auditHandler()
	uh.handleReceivedCommand("position fen qqqqkqqq/qqqqqqqq/qqqqqqqq/pppppppp/8/8/8/4K3 w - - 0 1")
	if strings.Contains(buf.String(), "info string") {
		t.Skipf("fen was rejected (which is fine): %s", buf.String())
	}
	uh.handleReceivedCommand("go depth 3")
	if auditWaitBest(buf, 1, 10*time.Second) == "" {
		t.Fatalf("no bestmove")
	}
	uh.handleReceivedCommand("isready")
	if !strings.Contains(buf.String(), "readyok") {
		t.Fatalf("no readyok")
	}
}

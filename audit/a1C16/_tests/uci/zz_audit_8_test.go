package uci

import (
	"strings"
	"testing"
)

// Finding 8 (lenient parsing, no crash): invalid move tokens inside an
// otherwise valid position command are neither reported nor ignored - they are
// silently read as a different move / silently cut off and the handler then
// holds a position the sender never described.
// Run: go test ./internal/uci -run TestAudit8 -count=1
func TestAudit8GarbageMoveTokensAccepted(t *testing.T) {
	uh, _ := auditHandler()
	start := uh.myPosition.StringFen()
	for _, cmd := range []string{
		"position startpos moves xxe2e4yy",              // regexUciMove is not anchored
		"position startpos moves e2e4e7e5",              // two moves glued together: read as e2e4, e7e5 dropped
		"position startpos moves e2e4 moves e7e5 g1f3", // second "moves": rest silently dropped
	} {
		uh.Command("ucinewgame")
		out := uh.Command(cmd)
		if uh.myPosition.StringFen() != start && !strings.Contains(out, "info string") {
			t.Errorf("%q: not reported, position silently set to %q", cmd, uh.myPosition.StringFen())
		}
	}
}

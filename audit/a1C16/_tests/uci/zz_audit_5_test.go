package uci

import (
	"bufio"
	"strings"
	"testing"
	"time"
)

// Finding 5: one over-long input line ends the protocol loop.
// The loop reads with a default bufio.Scanner (64 KiB token limit). A single
// line longer than that (well-formed or not) makes Scan() fail, the loop
// reports "Input stream can't be read any more" and returns - main() ends, the
// engine is gone: the following isready is never answered and the position is lost.
// Run: go test ./internal/uci -run TestAudit5 -count=1
func TestAudit5OverlongLineEndsLoop(t *testing.T) {
	uh, buf := auditHandler()
	long := "position startpos moves " + strings.Repeat("e2e4 ", 14000) // ~70 KB, simply invalid
	uh.InIo = bufio.NewScanner(strings.NewReader("isready\n" + long + "\nisready\nquit\n"))
	done := make(chan bool)
	go func() { uh.Loop(); done <- true }()
	select {
	case <-done:
	case <-time.After(10 * time.Second):
		t.Fatal("loop hangs")
	}
	if n := strings.Count(buf.String(), "readyok"); n != 2 {
		t.Errorf("expected 2 readyok, got %d; output: %q", n, buf.String())
	}
}

// Finding 6 (minor): leading white space makes every command unknown - the
// split on white space yields an empty first token. " isready" is never
// answered (the UCI specification allows arbitrary white space).
func TestAudit5LeadingWhitespace(t *testing.T) {
	uh, _ := auditHandler()
	for _, cmd := range []string{" isready", "\tisready", "  isready  "} {
		if r := uh.Command(cmd); !strings.Contains(r, "readyok") {
			t.Errorf("no readyok for %q (got %q)", cmd, r)
		}
	}
	// trailing white space: the whole command is rejected
	uh.Command("position startpos moves e2e4 ")
	if got := uh.myPosition.StringFen(); !strings.HasPrefix(got, "rnbqkbnr/pppppppp/8/8/4P3") {
		t.Errorf("position with trailing blank rejected, position is %q", got)
	}
}

package uci

import (
	"strings"
	"testing"
	"time"

	"github.com/frankkopp/FrankyGo/internal/config"
	"github.com/frankkopp/FrankyGo/internal/position"
)

// Finding 4: castling rights of a FEN are taken as they are - there is no check
// that king and rook stand on their home squares. The move generator only looks
// at the right and the empty squares between, so it produces "castling" moves
// without rook, with a foreign piece as "rook" or even without a king on e1.
// The engine answers with an illegal bestmove and accepts the illegal move in
// a position command (producing a board that no legal move could produce).
// Run: go test ./internal/uci -run TestAudit4 -count=1
func TestAudit4CastlingRightsWithoutRook(t *testing.T) {
	config.Settings.Search.UseBook = false
	uh, buf := auditHandler()

	// (1) no rook at all: bestmove e1g1
	uh.handleReceivedCommand("position fen 4k3/8/8/8/8/8/8/4K3 w KQ - 0 1")
	uh.handleReceivedCommand("go depth 4")
	bm := auditWaitBest(buf, 1, 10*time.Second)
	t.Logf("lone kings, rights KQ: %s", bm)
	if strings.HasPrefix(bm, "bestmove e1g1") || strings.HasPrefix(bm, "bestmove e1c1") {
		t.Errorf("illegal castling move as bestmove without any rook: %q", bm)
	}

	// (2) king not on e1: a "king" move from the empty square e1 is accepted
	uh.handleReceivedCommand("position fen 4k3/8/8/8/8/8/8/3K3R w K - 0 1 moves e1g1")
	if got := uh.myPosition.StringFen(); got != position.StartFen {
		// the command should have been rejected: position must be unchanged (start position)
		t.Errorf("move e1g1 from the empty square e1 accepted, position now %q", got)
	}

	// (3) black knights on a1/h1 are used as white rooks
	uh.handleReceivedCommand("position fen 4k3/8/8/8/8/8/8/n3K2n w KQ - 0 1 moves e1g1")
	t.Logf("after e1g1 with black knight on h1: %s", uh.myPosition.StringFen())
	if strings.HasPrefix(uh.myPosition.StringFen(), "4k3/8/8/8/8/8/8/n4nK1") {
		t.Errorf("castling moved the black knight h1 to f1: %q", uh.myPosition.StringFen())
	}

	// (4) the rook-less castling leaves a "ghost" in the occupancy bitboards:
	// the position is no longer well-formed and differs from its own FEN
	uh.handleReceivedCommand("position fen 4k3/8/8/8/8/8/8/4K3 w KQ - 0 1 moves e1g1")
	p := uh.myPosition
	p2, _ := position.NewPositionFen(p.StringFen())
	if p2 != nil && p.OccupiedAll() != p2.OccupiedAll() {
		t.Errorf("occupancy %x of the position differs from occupancy %x of its own fen %q", uint64(p.OccupiedAll()), uint64(p2.OccupiedAll()), p.StringFen())
	}
}

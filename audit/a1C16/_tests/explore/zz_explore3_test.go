package uci

import (
	"bufio"
	"math/rand"
	"os"
	"strconv"
	"strings"
	"testing"
	"time"

	"github.com/frankkopp/FrankyGo/internal/config"
	"github.com/frankkopp/FrankyGo/internal/movegen"
)

var fens = []string{
	"rnbqkbnr/pppppppp/8/8/8/8/PPPPPPPP/RNBQKBNR w KQkq - 0 1",
	"r3k2r/p1ppqpb1/bn2pnp1/3PN3/1p2P3/2N2Q1p/PPPBBPPP/R3K2R w KQkq - 0 1",
	"8/2p5/3p4/KP5r/1R3p1k/8/4P1P1/8 w - - 0 1",
	"rnbqkbnr/ppp1pppp/8/8/3pP3/8/PPPP1PPP/RNBQKBNR b KQkq e3 0 3",
	"4k3/P7/8/8/8/8/p7/4K3 w - - 5 20",
	"6k1/5ppp/8/8/8/8/8/R3K3 w Q - 0 1",
	"k7/P7/K7/8/8/8/8/8 b - - 0 1",
	"8/8/8/8/8/8/8/8 w - - 0 1",
	"4k3/8/8/8/8/8/8/4K3 w - - 99 1",
	"4k3/8/8/8/8/8/8/4K2R w K - 98 60",
	"r3k2r/8/8/8/8/8/8/4K3 b kq - 0 1",
	"4k3/1P6/8/8/8/8/1p6/4K3 b - - 0 1",
}
var words = []string{"position", "startpos", "fen", "moves", "go", "depth", "nodes", "mate", "movetime", "wtime", "btime", "winc", "binc", "movestogo",
	"infinite", "ponder", "searchmoves", "stop", "ponderhit", "isready", "uci", "ucinewgame", "setoption", "name", "value", "Hash", "Clear", "Use_Book", "Ponder",
	"true", "false", "e2e4", "e7e5", "a7a8q", "a7a8", "e1g1", "e8c8", "d4e3", "0000", "-1", "0", "1", "2", "3", "64", "999999999999", "9223372036854775807", "abc", "", "-", "w", "b", "KQkq",
	"debug", "on", "register", "noop", "quit2", "\t", "Use_Hash", "Quiescence", "Use_Lmr", "Print", "Config", "Use_MTDf", "Eval_Lazy", "1", "2"}

func TestExploreUciFuzz(t *testing.T) {
	config.Settings.Search.UseBook = false
	seed := int64(1)
	if s := os.Getenv("SEED"); s != "" {
		seed, _ = strconv.ParseInt(s, 10, 64)
	}
	n := 3000
	if s := os.Getenv("N"); s != "" {
		n, _ = strconv.Atoi(s)
	}
	r := rand.New(rand.NewSource(seed))
	uh := NewUciHandler()
	buf := &syncBuf{}
	uh.OutIo = bufio.NewWriter(buf)
	mg := movegen.NewMoveGen()
	bestSeen := 0
	searching := false
	waitBest := func(cmd string) {
		dl := time.Now().Add(15 * time.Second)
		for strings.Count(buf.String(), "bestmove") <= bestSeen {
			if time.Now().After(dl) {
				t.Fatalf("no bestmove after %q", cmd)
			}
			time.Sleep(time.Millisecond)
		}
		bestSeen = strings.Count(buf.String(), "bestmove")
		searching = false
		// check legality of last bestmove
		s := buf.String()
		idx := strings.LastIndex(s, "bestmove ")
		line := s[idx:]
		line = line[:strings.Index(line, "\n")]
		f := strings.Fields(line)
		mv := f[1]
		pos := *uh.myPosition
		ml := mg.GenerateLegalMoves(&pos, movegen.GenAll)
		if ml.Len() == 0 || pos.HalfMoveClock() >= 100 {
			return
		}
		ok := false
		for _, m := range *ml {
			if m.StringUci() == mv {
				ok = true
			}
		}
		if !ok {
			t.Errorf("ILLEGAL bestmove %q on %s after %q", line, pos.StringFen(), cmd)
		}
	}
	gen := func() string {
		switch r.Intn(12) {
		case 0, 1:
			// valid-ish position
			s := "position "
			if r.Intn(2) == 0 {
				s += "startpos"
			} else {
				s += "fen " + fens[r.Intn(len(fens))]
			}
			if r.Intn(2) == 0 {
				s += " moves"
				pos := *uh.myPosition
				_ = pos
				k := r.Intn(4)
				for i := 0; i < k; i++ {
					s += " " + words[31+r.Intn(8)]
				}
			}
			return s
		case 2, 3:
			gs := []string{"go depth 1", "go depth 2", "go movetime 5", "go nodes 100", "go wtime 50 btime 50", "go wtime 50 btime 50 winc 10 binc 10 movestogo 3", "go depth", "go", "go mate 1 depth 2", "go depth 2 searchmoves e2e4 a7a8q", "go searchmoves e2e4 depth 1"}
			return gs[r.Intn(len(gs))]
		case 4:
			return "isready"
		case 5:
			os := []string{"setoption name Hash value " + strconv.Itoa(r.Intn(70)-2), "setoption name Clear Hash", "setoption name Use_Lmr value " + words[29+r.Intn(2)], "setoption name Quiescence value " + words[29+r.Intn(2)],
				"setoption name Ponder value true", "setoption", "setoption name", "setoption name Hash", "setoption name Hash value", "setoption value 3", "setoption name Use_Book value false", "setoption name Use_MTDf value " + words[29+r.Intn(2)], "setoption name Eval_Lazy value " + words[29+r.Intn(2)], "ucinewgame", "stop", "ponderhit"}
			return os[r.Intn(len(os))]
		default:
			k := 1 + r.Intn(7)
			var sb []string
			for i := 0; i < k; i++ {
				sb = append(sb, words[r.Intn(len(words))])
			}
			if r.Intn(4) == 0 {
				sb = append([]string{"position", "fen", fens[r.Intn(len(fens))]}, sb...)
			}
			return strings.Join(sb, " ")
		}
	}
	for i := 0; i < n; i++ {
		cmd := gen()
		if len(cmd) == 0 || strings.HasPrefix(cmd, "quit") || strings.HasPrefix(cmd, "perft") {
			continue
		}
		if strings.Contains(cmd, "Use_Hash") {
			continue
		}
		before := uh.myPosition.StringFen()
		mark := len(buf.String())
		wasSearching := uh.mySearch.IsSearching()
		uh.handleReceivedCommand(cmd)
		newOut := buf.String()[mark:]
		f := strings.Fields(cmd)
		if cmd[0] == ' ' || cmd[0] == '\t' {
			f = nil
		}
		if len(f) > 0 && f[0] == "position" && strings.Contains(newOut, "info string Command 'position'") {
			if uh.myPosition.StringFen() != before {
				t.Errorf("position changed by rejected %q: %s -> %s", cmd, before, uh.myPosition.StringFen())
			}
		}
		if len(f) > 0 && f[0] == "isready" && !strings.Contains(newOut, "readyok") {
			t.Errorf("no readyok for %q", cmd)
		}
		if len(f) > 0 && f[0] == "go" && !wasSearching && !strings.Contains(newOut, "info string UCI command go") {
			searching = true
			if strings.Contains(cmd, "infinite") || strings.Contains(cmd, "ponder") || (strings.Contains(cmd, "mate") && !strings.Contains(cmd, "depth") && !strings.Contains(cmd, "time") && !strings.Contains(cmd, "nodes")) {
				time.Sleep(time.Duration(r.Intn(20)) * time.Millisecond)
				uh.handleReceivedCommand("stop")
			}
			waitBest(cmd)
		}
		_ = searching
	}
	if !strings.Contains(uh.Command("isready"), "readyok") {
		t.Errorf("no final readyok")
	}
}

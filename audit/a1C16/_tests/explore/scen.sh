#!/bin/bash
# usage: scen.sh "cmd|cmd|WAIT"
cd /tmp/mut/a1C16/internal/uci
SCEN="$1" timeout 60 /tmp/mut/a1C16/uci.test -test.run 'TestExplore$' -test.v 2>&1 | grep -v "UCI \(<<\|>>\)\|DEBUG\|INFO \|Log folder\|Config file\|Test Main" | grep -v "^\s*/\|^github.com\|^goroutine\|^$" | cut -c1-300 | head -${2:-25}

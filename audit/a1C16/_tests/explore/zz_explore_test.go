package uci

import (
	"bufio"
	"os"
	"strings"
	"sync"
	"testing"
	"time"

	"github.com/frankkopp/FrankyGo/internal/config"
)

type syncBuf struct {
	mu sync.Mutex
	sb strings.Builder
}

func (b *syncBuf) Write(p []byte) (int, error) {
	b.mu.Lock()
	defer b.mu.Unlock()
	return b.sb.Write(p)
}
func (b *syncBuf) String() string {
	b.mu.Lock()
	defer b.mu.Unlock()
	return b.sb.String()
}

// scenario from env: lines separated by '|' ; a line "WAIT" waits for bestmove (max 20s); "SLEEP" sleeps 300ms
func TestExplore(t *testing.T) {
	config.Settings.Search.UseBook = false
	sc := os.Getenv("SCEN")
	uh := NewUciHandler()
	buf := &syncBuf{}
	uh.OutIo = bufio.NewWriter(buf)
	seen := 0
	for _, l := range strings.Split(sc, "|") {
		switch l {
		case "WAIT":
			dl := time.Now().Add(20 * time.Second)
			for {
				s := buf.String()
				if strings.Count(s, "bestmove") > seen {
					seen = strings.Count(s, "bestmove")
					break
				}
				if time.Now().After(dl) {
					t.Errorf("TIMEOUT waiting for bestmove")
					uh.handleReceivedCommand("stop")
					break
				}
				time.Sleep(5 * time.Millisecond)
			}
		case "SLEEP":
			time.Sleep(300 * time.Millisecond)
		default:
			uh.handleReceivedCommand(l)
		}
	}
	done := make(chan bool)
	go func() { uh.handleReceivedCommand("isready"); done <- true }()
	select {
	case <-done:
	case <-time.After(10 * time.Second):
		t.Errorf("isready HANG")
	}
	out := buf.String()
	for _, l := range strings.Split(out, "\n") {
		if strings.HasPrefix(l, "bestmove") || strings.HasPrefix(l, "info string") || strings.HasPrefix(l, "readyok") {
			t.Log(l)
		}
	}
	t.Log("FEN now: " + uh.myPosition.StringFen())
}

package position_test

import (
	"fmt"
	"math/rand"
	"strings"
	"testing"

	"github.com/frankkopp/FrankyGo/internal/movegen"
	"github.com/frankkopp/FrankyGo/internal/position"
	. "github.com/frankkopp/FrankyGo/internal/types"
)

var seeds = []string{
	"rnbqkbnr/pppppppp/8/8/8/8/PPPPPPPP/RNBQKBNR w KQkq - 0 1",
	"r3k2r/1ppn3p/2q1q1n1/4P3/2q1Pp2/B5R1/pbp2PPP/1R4K1 b kq e3 0 113",
	"r3k2r/p1ppqpb1/bn2pnp1/3PN3/1p2P3/2N2Q1p/PPPBBPPP/R3K2R w KQkq - 0 1",
	"8/2p5/3p4/KP5r/1R3p1k/8/4P1P1/8 w - - 0 1",
	"rnbqkbnr/ppp1pppp/8/8/3pP3/8/PPPP1PPP/RNBQKBNR b KQkq e3 0 3",
	"4k3/P7/8/8/8/8/p7/4K3 w - - 5 20",
}

const alphabet = "0123456789pPnNbBrRqQkK/ -wbabcdefgh|KQkqxX+.\t"

func mutate(r *rand.Rand, s string) string {
	b := []byte(s)
	n := 1 + r.Intn(3)
	for i := 0; i < n; i++ {
		switch r.Intn(6) {
		case 0: // replace
			if len(b) > 0 {
				b[r.Intn(len(b))] = alphabet[r.Intn(len(alphabet))]
			}
		case 1: // insert
			p := r.Intn(len(b) + 1)
			b = append(b[:p], append([]byte{alphabet[r.Intn(len(alphabet))]}, b[p:]...)...)
		case 2: // delete
			if len(b) > 0 {
				p := r.Intn(len(b))
				b = append(b[:p], b[p+1:]...)
			}
		case 3: // truncate
			if len(b) > 0 {
				b = b[:r.Intn(len(b))]
			}
		case 4: // swap fields
			f := strings.Split(string(b), " ")
			if len(f) > 1 {
				i, j := r.Intn(len(f)), r.Intn(len(f))
				f[i], f[j] = f[j], f[i]
				b = []byte(strings.Join(f, " "))
			}
		case 5: // duplicate a chunk
			if len(b) > 1 {
				p := r.Intn(len(b))
				q := p + r.Intn(len(b)-p)
				b = append(b[:q], append(append([]byte{}, b[p:q]...), b[q:]...)...)
			}
		}
	}
	return string(b)
}

func checkOne(t *testing.T, mg *movegen.Movegen, fen string) (accepted bool) {
	defer func() {
		if r := recover(); r != nil {
			t.Errorf("PANIC for fen %q: %v", fen, r)
		}
	}()
	p, err := position.NewPositionFen(fen)
	if err != nil {
		return false
	}
	out := p.StringFen()
	p2, err := position.NewPositionFen(out)
	if err != nil {
		t.Errorf("output fen %q of accepted %q rejected: %v", out, fen, err)
		return true
	}
	if p2.StringFen() != out {
		t.Errorf("not stable %q -> %q -> %q", fen, out, p2.StringFen())
	}
	if *p2 != *p && len(strings.Fields(fen)) >= 3 {
		t.Errorf("position differs after round trip %q -> %q", fen, out)
	}
	// what the uci handler accepts
	if p.PiecesBb(White, King).PopCount() != 1 || p.PiecesBb(Black, King).PopCount() != 1 {
		return true
	}
	if p.IsAttacked(p.KingSquare(p.NextPlayer().Flip()), p.NextPlayer()) {
		return true
	}
	before := *p
	perft(p, mg, 2, fen)
	if *p != before {
		// ignore history content
		if p.StringFen() != before.StringFen() || p.ZobristKey() != before.ZobristKey() {
			t.Errorf("do/undo changed position %q -> %q", fen, p.StringFen())
		}
	}
	return true
}

func perft(p *position.Position, mgx *movegen.Movegen, d int, fen string) {
	mg := movegen.NewMoveGen()
	ml := mg.GenerateLegalMoves(p, movegen.GenAll).Clone()
	for _, m := range *ml {
		p.DoMove(m)
		if p.PiecesBb(White, King).PopCount() != 1 || p.PiecesBb(Black, King).PopCount() != 1 {
			panic(fmt.Sprintf("king lost after %s", m.StringUci()))
		}
		_ = p.StringFen()
		p.HasCheck()
		if d > 1 {
			perft(p, mgx, d-1, fen)
		}
		p.UndoMove()
	}
}

func TestExploreFenFuzz(t *testing.T) {
	r := rand.New(rand.NewSource(42))
	mg := movegen.NewMoveGen()
	acc := 0
	for i := 0; i < 3000000; i++ {
		s := seeds[r.Intn(len(seeds))]
		k := 1 + r.Intn(3)
		for j := 0; j < k; j++ {
			s = mutate(r, s)
		}
		if checkOne(t, mg, s) {
			acc++
		}
		if t.Failed() && i > 20000 {
			break
		}
	}
	t.Logf("accepted %d", acc)
}

package position_test

import (
	"math/rand"
	"testing"

	"github.com/frankkopp/FrankyGo/internal/movegen"
	"github.com/frankkopp/FrankyGo/internal/position"
)

func TestExploreLegalRoundTrip(t *testing.T) {
	mg := movegen.NewMoveGen()
	rnd := rand.New(rand.NewSource(1))
	bad := 0
	for g := 0; g < 3000 && bad < 10; g++ {
		p := position.NewPosition()
		for ply := 0; ply < 200; ply++ {
			ml := mg.GenerateLegalMoves(p, movegen.GenAll)
			if ml.Len() == 0 {
				break
			}
			m := ml.At(rnd.Intn(ml.Len()))
			p.DoMove(m)
			fen := p.StringFen()
			p2, err := position.NewPositionFen(fen)
			if err != nil {
				t.Errorf("legal position rejected: %s: %v", fen, err)
				bad++
				break
			}
			if p2.StringFen() != fen {
				t.Errorf("fen differs %s vs %s", fen, p2.StringFen())
				bad++
				break
			}
			if p.GetEnPassantSquare() == 64 && p2.ZobristKey() != p.ZobristKey() {
				t.Errorf("zobrist differs for %s (last move %s)", fen, m.StringUci())
				bad++
				break
			}
			if p2.Material(0) != p.Material(0) || p2.Material(1) != p.Material(1) || 
				p2.PsqMidValue(0) != p.PsqMidValue(0) || p2.PsqMidValue(1) != p.PsqMidValue(1) {
				t.Errorf("derived values differ for %s (last move %s) gp %d %d", fen, m.StringUci(), p.GamePhase(), p2.GamePhase())
				bad++
				break
			}
		}
	}
}

package position_test

import (
	"testing"

	"github.com/frankkopp/FrankyGo/internal/movegen"
	"github.com/frankkopp/FrankyGo/internal/position"
)

// Side finding (do/undo rather than parsing, but it breaks "the FEN output
// parses back to the same position"): putPiece clamps the game phase at 24,
// removePiece subtracts from the clamped value. Doing and undoing a promotion
// (which the legal move generator does for its legality test, and which the
// "position ... moves" and "go searchmoves" parsing triggers through
// GetMoveFromUci) permanently lowers the game phase of the position.
// Run: go test ./internal/position -run TestAudit7 -count=1
func TestAudit7GamePhaseAfterMoveGeneration(t *testing.T) {
	fen := "1nbqkbnr/Pppppppp/8/8/8/8/1PPPPPPP/RNBQKBNR w KQk - 0 1"
	p, err := position.NewPositionFen(fen)
	if err != nil {
		t.Fatal(err)
	}
	before := p.GamePhase()
	mg := movegen.NewMoveGen()
	mg.GenerateLegalMoves(p, movegen.GenAll) // must not change the position
	p2, _ := position.NewPositionFen(p.StringFen())
	if p.GamePhase() != before || p.GamePhase() != p2.GamePhase() {
		t.Errorf("game phase %d before, %d after generating legal moves, %d for the position of its own fen", before, p.GamePhase(), p2.GamePhase())
	}
}

package position_test

import (
	"testing"

	"github.com/frankkopp/FrankyGo/internal/movegen"
	"github.com/frankkopp/FrankyGo/internal/position"
)

// Finding 7: "FEN output parses back to the same position" does not hold for
// the zobrist key, which is part of the position (TT, repetition, book).
// Run: go test ./internal/position -run TestAudit6 -count=1

// (a) setupBoard sets the en passant square without adding the en passant
// file key; DoMove does add it. The same legal position has two keys and once
// the en passant square is cleared the key carries a stray en passant key for ever.
func TestAudit6EnPassantZobrist(t *testing.T) {
	mg := movegen.NewMoveGen()
	p := position.NewPosition()
	p.DoMove(mg.GetMoveFromUci(p, "e2e4"))
	fen := p.StringFen() // rnbqkbnr/pppppppp/8/8/4P3/8/PPPP1PPP/RNBQKBNR b KQkq e3 0 1
	p2, err := position.NewPositionFen(fen)
	if err != nil {
		t.Fatal(err)
	}
	if p2.StringFen() != fen {
		t.Fatalf("fen differs")
	}
	if p.ZobristKey() != p2.ZobristKey() {
		t.Errorf("legal position %q: key %d by moves, key %d from its own fen", fen, p.ZobristKey(), p2.ZobristKey())
	}
	// one move later the en passant square is gone - the keys must be equal again but are not
	p.DoMove(mg.GetMoveFromUci(p, "g8f6"))
	p2.DoMove(mg.GetMoveFromUci(p2, "g8f6"))
	p3, _ := position.NewPositionFen(p2.StringFen())
	if p2.ZobristKey() != p3.ZobristKey() {
		t.Errorf("position %q: key %d differs from key %d of its own fen", p2.StringFen(), p2.ZobristKey(), p3.ZobristKey())
	}
}

// (b) a truncated FEN (fields after the board are optional and get defaults)
// never adds the castling rights key: "X w" and its own output "X w - - 0 1"
// have different keys.
func TestAudit6TruncatedFenZobrist(t *testing.T) {
	p, err := position.NewPositionFen("4k3/8/8/8/8/8/4P3/4K3 w")
	if err != nil {
		t.Fatal(err)
	}
	p2, err := position.NewPositionFen(p.StringFen())
	if err != nil {
		t.Fatal(err)
	}
	if *p != *p2 {
		t.Errorf("position of truncated fen differs from the position of its own output %q (keys %d / %d)", p.StringFen(), p.ZobristKey(), p2.ZobristKey())
	}
}

// (c) bad fields which are accepted: the colour regex "^[w|b]$" accepts "|"
// (taken as white), the board regex is not anchored (harmless, chars are checked again)
func TestAudit6BadColourFieldAccepted(t *testing.T) {
	p, err := position.NewPositionFen("4k3/8/8/8/8/8/4P3/4K3 | - - 0 1")
	if err == nil {
		t.Errorf("fen with next player '|' accepted as %q", p.StringFen())
	}
}

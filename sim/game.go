package verifsim

import (
	"fmt"
	"os"
	"path/filepath"
	"strings"
	"time"

	"github.com/frankkopp/FrankyGo/internal/position"
	"github.com/frankkopp/FrankyGo/internal/search"

	"github.com/frankkopp/FrankyGo/verifsim/rules"
)

// GameMove records one engine move of a simulated clocked game.
type GameMove struct {
	Ply         int      `json:"ply"`
	Fen         string   `json:"fen"`
	Go          string   `json:"go"`
	RemainMs    int64    `json:"remain_ms"`   // mover's clock when go was sent
	IncMs       int64    `json:"inc_ms"`      //
	MovesToGo   int      `json:"movestogo"`   //
	AllottedNs  int64    `json:"allotted_ns"` // engine's own budget for this go (H9), -1 if not taken
	ElapsedNs   int64    `json:"elapsed_ns"`  // go (or ponderhit) -> bestmove
	Best        string   `json:"best"`
	ByTimer     bool     `json:"by_timer"` // the search was ended by its own timer
	Pondered    string   `json:"pondered,omitempty"`
	Hit         bool     `json:"hit,omitempty"`
	MoveTimeMs  int64    `json:"movetime_ms,omitempty"`
	SearchMoves []string `json:"searchmoves,omitempty"`
}

// GameOut is what the clock oracles work on.
type GameOut struct {
	Sim        *Sim
	Moves      []GameMove
	Hist       []HistLine
	Aborted    string // reason the game ended early (not a violation by itself)
	Violations []Violation
	Faults     map[string]int
	Probes     map[string]int
	SigHash    uint64
	LoopPanics []LoopPanic
	LeftTimers int
	LeftSearch bool
}

var budgetSearch *search.Search

// TimeBudget asks the engine (hook H9) for the time it allots to a go with
// the given clock limits in the given position. Pure: no search is started.
func TimeBudget(fen string, l *LimitSpec) (time.Duration, error) {
	if budgetSearch == nil {
		budgetSearch = search.NewSearch()
	}
	p, err := position.NewPositionFen(fen)
	if err != nil || p == nil {
		return 0, fmt.Errorf("engine rejects fen %q", fen)
	}
	sl := limitsFromSpec(l, p)
	return budgetSearch.VerifTimeBudget(p, &sl), nil
}

func (g *GameOut) violate(prop, class, detail string) {
	for _, v := range g.Violations {
		if v.Prop == prop && v.Class == class {
			return
		}
	}
	g.Violations = append(g.Violations, Violation{Prop: prop, Class: class, Detail: detail})
}

// RunGame plays a closed-loop simulated game: the GUI owns both clocks,
// sends go with the clock state, charges the fake time until bestmove, adds
// the increment, counts moves-to-go down and refills at the control.
func RunGame(sc *Scenario) *GameOut {
	g := sc.Game
	sim := NewSim(sc.Seed, sc.Cost)
	sim.MonitorTerm = true
	SetCurrent(sim)
	defer SetCurrent(nil)
	out := &GameOut{Sim: sim, Faults: map[string]int{}, Probes: map[string]int{}, SigHash: 1469598103934665603}
	if g.UseBook {
		// a small opening book (coordinate format) in a per-run directory: the
		// engine answers from the book while it can and gives the first search
		// after the book extra time
		dir, err := bookTempDir(sc.Seed)
		if err != nil {
			out.Aborted = "tmp dir: " + err.Error()
			return out
		}
		defer os.RemoveAll(dir)
		brng := NewPRNG(sc.Seed, "gamebook")
		bs := &BookSpec{Games: genGames(brng, brng.Range(3, 30), brng.Range(2, 10), 2)}
		if err := os.WriteFile(filepath.Join(dir, "book.txt"), []byte(renderSimple(bs)), 0o644); err != nil {
			out.Aborted = "book file: " + err.Error()
			return out
		}
		setBook(dir, "book.txt", "Simple")
	}
	us := NewUciSession(sim)
	rng := NewPRNG(sc.Seed, "game")
	poll := sc.PollUs
	if poll <= 0 {
		poll = 20
	}
	send := func(line string) bool {
		if !us.Send(line) {
			_, msg := us.LoopEnded()
			out.LoopPanics = append(out.LoopPanics, LoopPanic{Line: clip(line, 200), Msg: msg})
			us.RestartLoop()
			return false
		}
		return true
	}
	settle := func() { sim.ActorSleep(offGUI, 1) }
	waitBest := func(want int, maxNs int64) bool {
		start := sim.Now()
		for {
			b, _, _ := us.Counts()
			if b >= want {
				return true
			}
			waited := sim.Now() - start
			if waited > maxNs || simExhausted(sim) {
				return false
			}
			// adaptive polling: reaction latency at most 0.5% of the time waited
			step := waited / 200
			if step < poll*1000 {
				step = poll * 1000
			}
			if step > 5_000_000 {
				step = 5_000_000
			}
			sim.ActorSleep(offGUI, step)
		}
	}
	lastBest := func() (string, string, int64) {
		h := us.History()
		for i := len(h) - 1; i >= 0; i-- {
			if !h[i].In && strings.HasPrefix(h[i].Text, "bestmove") {
				f := strings.Fields(h[i].Text)
				bm, pm := "", ""
				if len(f) >= 2 {
					bm = f[1]
				}
				if len(f) >= 4 && f[2] == "ponder" {
					pm = f[3]
				}
				return bm, pm, h[i].T
			}
		}
		return "", "", 0
	}

	send("uci")
	send("isready")
	settle()
	if g.UseBook {
		// the book is built on the first isready (fake time passes at the build's yield points)
		for k := 0; k < 20000; k++ {
			if _, r, _ := us.Counts(); r >= 1 {
				break
			}
			sim.ActorSleep(offGUI, 1_000_000)
		}
	}
	send("setoption name Hash value 2")
	settle()

	start := rules.MustFen(g.StartFen)
	pos := start.Clone()
	var played []string
	for _, m := range g.Opening {
		if err := pos.Play(m); err != nil {
			out.Aborted = "bad opening move " + m
			break
		}
		played = append(played, m)
	}
	clock := [2]int64{g.WTimeMs * 1_000_000, g.BTimeMs * 1_000_000} // ns
	inc := [2]int64{g.WIncMs * 1_000_000, g.BIncMs * 1_000_000}
	mtg := [2]int{g.MovesToGo, g.MovesToGo}
	movesInControl := [2]int{}
	wantBest := 0
	inBook := false
	posCmd := func(extra ...string) string {
		all := append(append([]string{}, played...), extra...)
		c := "position fen " + g.StartFen
		if g.StartFen == rules.StartFen {
			c = "position startpos"
		}
		if len(all) > 0 {
			c += " moves " + strings.Join(all, " ")
		}
		return c
	}
	goLine := func(ponder bool) (string, *LimitSpec) {
		l := &LimitSpec{WTime: max64(clock[0]/1_000_000, 1), BTime: max64(clock[1]/1_000_000, 1), WInc: inc[0] / 1_000_000, BInc: inc[1] / 1_000_000, Ponder: ponder}
		s := "go"
		if ponder {
			s += " ponder"
		}
		s += fmt.Sprintf(" wtime %d btime %d", l.WTime, l.BTime)
		if l.WInc > 0 || l.BInc > 0 {
			s += fmt.Sprintf(" winc %d binc %d", l.WInc, l.BInc)
		}
		return s, l
	}

	for ply := 0; ply < g.Plies && out.Aborted == ""; ply++ {
		if simExhausted(sim) {
			out.Aborted = "slot budget"
			break
		}
		legal := pos.LegalMoves()
		if len(legal) == 0 || pos.HalfMove >= 100 || pos.Repetitions() >= 2 {
			out.Aborted = "game over"
			break
		}
		side := 0
		if !pos.WhiteTo {
			side = 1
		}
		sim.ActorSleep(offGUI, g.GuiLagUs*1000)
		gl, l := goLine(false)
		if mtg[side] > 0 {
			l.MovesToGo = mtg[side]
			gl += fmt.Sprintf(" movestogo %d", mtg[side])
		}
		gm := GameMove{Ply: ply, Fen: pos.Fen(), Go: gl, RemainMs: clock[side] / 1_000_000, IncMs: inc[side] / 1_000_000, MovesToGo: mtg[side], AllottedNs: -1}
		if g.MoveTimeMs > 0 {
			gl = fmt.Sprintf("go movetime %d", g.MoveTimeMs)
			gm.Go, gm.MoveTimeMs = gl, g.MoveTimeMs
		}
		if len(legal) > 2 && rng.Intn(100) < 12 {
			// the GUI restricts the root moves (also while the engine is in its book)
			k := rng.Range(1, min(3, len(legal)-1))
			for _, ix := range permK(rng, len(legal), k) {
				gm.SearchMoves = append(gm.SearchMoves, legal[ix].String())
			}
			gl += " searchmoves " + strings.Join(gm.SearchMoves, " ")
			gm.Go = gl
		}
		if us.Plain && g.MoveTimeMs == 0 {
			if b, err := TimeBudget(pos.Fen(), l); err == nil {
				gm.AllottedNs = int64(b)
			}
		}
		if !send(posCmd()) {
			out.Aborted = "loop ended"
			break
		}
		firesBefore := simTimerFires(sim)
		yieldsBefore := simYields(sim)
		t0 := sim.Now()
		if !send(gl) {
			out.Aborted = "loop ended"
			break
		}
		wantBest++
		settle()
		// the engine is flagged when its clock runs out (plus the scheduling
		// allowance); the GUI then stops the search to go on with the game
		allow := int64(moveTimeSlackNs) + 500*int64(sc.Cost.BaseNs+sc.Cost.JitterNs)
		deadline := clock[side]
		if g.MoveTimeMs > 0 {
			deadline = g.MoveTimeMs * 1_000_000
		}
		if !waitBest(wantBest, deadline+allow) {
			if simExhausted(sim) {
				out.Aborted = "slot budget"
				break
			}
			if g.MoveTimeMs > 0 {
				out.violate("C13", "movetime_overrun", fmt.Sprintf("ply %d: %q on %s: no bestmove after %d ms", ply, gl, pos.Fen(), (sim.Now()-t0)/1_000_000))
			} else {
				out.violate("C13", "flagged", fmt.Sprintf("ply %d: %q on %s: no bestmove after %d ms with %d ms on the clock", ply, gl, pos.Fen(), (sim.Now()-t0)/1_000_000, clock[side]/1_000_000))
			}
			out.Probes["flag_fell"]++
			send("stop")
			settle()
			if !waitBest(wantBest, 60_000_000_000) {
				out.violate("C13", "game_search_not_terminating", fmt.Sprintf("ply %d: %q on %s not answered 60 s after stop", ply, gl, pos.Fen()))
				out.Aborted = "no bestmove"
				break
			}
		}
		bm, _, tBest := lastBest()
		gm.ElapsedNs = tBest - t0
		gm.Best = bm
		gm.ByTimer = simTimerFires(sim) > firesBefore
		if g.UseBook && gm.ElapsedNs < 1000 && simYields(sim) == yieldsBefore {
			out.Probes["book_move_played"]++
			inBook = true
		} else if inBook {
			inBook = false
			out.Probes["first_search_after_book"]++
		}
		out.Moves = append(out.Moves, gm)
		if gm.ByTimer {
			out.Faults["F2_timeout_mid_search"]++
		}
		h := out.SigHash
		h = (h ^ uint64(side)) * 1099511628211
		h = (h ^ uint64(gm.ElapsedNs/1_000_000)) * 1099511628211
		out.SigHash = h
		// charge the clock
		if g.MoveTimeMs == 0 {
			clock[side] -= gm.ElapsedNs
		}
		movesInControl[side]++
		if !pos.IsLegal(bm) {
			out.violate("C05", "illegal_bestmove", fmt.Sprintf("game ply %d root %s: bestmove %q", ply, pos.Fen(), bm))
			out.Aborted = "illegal move"
			break
		}
		_ = pos.Play(bm)
		played = append(played, strings.ToLower(bm))
		clock[side] += inc[side]
		if mtg[side] > 0 {
			mtg[side]--
			if mtg[side] == 0 {
				// time control reached: refill
				mtg[side] = g.MovesToGo
				if side == 0 {
					clock[side] += g.WTimeMs * 1_000_000
				} else {
					clock[side] += g.BTimeMs * 1_000_000
				}
				out.Probes["time_control_refill"]++
			}
		}
		_ = rng
	}

	// close
	sim.ActorSleep(offGUI, 1000)
	if send("stop") {
		settle()
	}
	waitBest(wantBest, 2_000_000_000)
	out.Hist = us.History()
	if send("quit") {
		settle()
	}
	out.LeftTimers, out.LeftSearch = DrainEngine(sim, offGUI)
	return out
}

//go:norace
func simTimerFires(s *Sim) int { return s.TimerFires }

//go:norace
func simYields(s *Sim) int64 { return s.Yields }

func max64(a, b int64) int64 {
	if a > b {
		return a
	}
	return b
}

// CheckGame evaluates the clock-control oracles of C13 on a simulated game.
func CheckGame(sc *Scenario, out *GameOut, res *RunResult) {
	for _, v := range out.Violations {
		res.addViolation(v.Prop, v.Class, v.Detail)
	}
	for _, lp := range out.LoopPanics {
		res.addViolation("C12", "panic:"+panicSite(lp.Msg), fmt.Sprintf("game line %q: %s", lp.Line, clip(lp.Msg, 300)))
	}
	for _, m := range out.Moves {
		remainNs := m.RemainMs * 1_000_000
		// allotted view
		if m.AllottedNs >= 0 {
			res.count("allotted_samples", 1)
			if m.AllottedNs > remainNs {
				res.addViolation("C13", "budget_exceeds_remaining", fmt.Sprintf("%q on %s: engine allots %d ms but only %d ms remain", m.Go, m.Fen, m.AllottedNs/1_000_000, m.RemainMs))
			}
			if bad := allotmentRepeatedFits(m.AllottedNs, remainNs, m.IncMs*1_000_000, m.MovesToGo); bad != "" {
				res.addViolation("C13", "budget_repeated_does_not_fit", fmt.Sprintf("%q on %s: %s", m.Go, m.Fen, bad))
			}
		}
		// observed view: only searches ended by their own timer are samples
		if m.ByTimer && m.MoveTimeMs == 0 {
			res.count("observed_samples", 1)
			// allowance: 10 fake ms plus the fake cost of 500 stop checks for unwinding
			if m.ElapsedNs > remainNs+moveTimeSlackNs+500*int64(sc.Cost.BaseNs+sc.Cost.JitterNs) {
				res.addViolation("C13", "flagged", fmt.Sprintf("%q on %s: bestmove after %d ms with %d ms on the clock", m.Go, m.Fen, m.ElapsedNs/1_000_000, m.RemainMs))
			}
		}
	}
	for _, m := range out.Moves {
		if len(m.SearchMoves) > 0 && m.Best != "" {
			res.count("searchmoves_samples", 1)
			found := false
			for _, x := range m.SearchMoves {
				if strings.EqualFold(x, m.Best) {
					found = true
				}
			}
			if !found {
				res.addViolation("C13", "searchmoves_ignored", fmt.Sprintf("%q on %s: bestmove %s not in list", m.Go, m.Fen, m.Best))
			}
		}
	}
	res.count("game_moves", int64(len(out.Moves)))
}

// allotmentRepeatedFits: the time allotted to a move, repeated for the
// announced moves-to-go (at least 15 moves when none is announced), must fit
// into the mover's remaining time plus the increments the mover receives.
func allotmentRepeatedFits(allottedNs, remainNs, incNs int64, mtg int) string {
	n := int64(mtg)
	if n == 0 {
		n = 15
	}
	if allottedNs*n > remainNs+n*incNs {
		return fmt.Sprintf("%d ms allotted x %d moves = %d ms exceeds remaining %d ms + %d increments of %d ms", allottedNs/1_000_000, n, allottedNs*n/1_000_000, remainNs/1_000_000, n, incNs/1_000_000)
	}
	return ""
}

// BudgetSequenceCheck follows the engine's own allotments (H9) through the
// announced moves-to-go (15 moves when none is announced): every allotment
// must fit into what is left, i.e. the repeated allotments fit into the
// remaining time plus the increments received. Pure function sweep (input
// enumeration): supplementary to the simulated games.
func BudgetSequenceCheck(fen string, whiteToMove bool, remainMs, incMs int64, mtg int) (string, int) {
	n := mtg
	if n == 0 {
		n = 15
	}
	remain := remainMs * 1_000_000
	checked := 0
	for k := 0; k < n; k++ {
		l := &LimitSpec{WInc: incMs, BInc: incMs}
		ms := remain / 1_000_000
		if ms < 1 {
			ms = 1
		}
		l.WTime, l.BTime = ms, ms
		if mtg > 0 {
			l.MovesToGo = mtg - k
		}
		b, err := TimeBudget(fen, l)
		if err != nil {
			return "", checked
		}
		checked++
		if int64(b) > ms*1_000_000 {
			return fmt.Sprintf("move %d of the control: %d ms remaining, inc %d ms, movestogo %d on %s: engine allots %d ms", k+1, ms, incMs, l.MovesToGo, fen, int64(b)/1_000_000), checked
		}
		remain = ms*1_000_000 - int64(b) + incMs*1_000_000
	}
	return "", checked
}

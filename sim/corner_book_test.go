package verifsim

import (
	"fmt"
	"os"
	"strings"
	"testing"

	"github.com/frankkopp/FrankyGo/verifsim/rules"
)

// TestCornerBookGames validates the hand-made corner games with the rules model.
func TestCornerBookGames(t *testing.T) {
	var log strings.Builder
	defer func() {
		if f := os.Getenv("VERIF_CORNER_LOG"); f != "" {
			_ = os.WriteFile(f, []byte(log.String()), 0o644)
		}
	}()
	for i, cg := range cornerBookGames {
		p := rules.MustFen(rules.StartFen)
		for k, m := range strings.Fields(cg.prefix) {
			if err := p.Play(m); err != nil {
				t.Errorf("game %d: move %d (%s) illegal in %s", i, k, m, p.Fen())
				fmt.Fprintf(&log, "game %d: move %d (%s) illegal in %s\n", i, k, m, p.Fen())
				break
			}
		}
		if p.IsLegal(cg.illegal) {
			t.Errorf("game %d: %s is legal in %s", i, cg.illegal, p.Fen())
			fmt.Fprintf(&log, "game %d: %s is legal in %s\n", i, cg.illegal, p.Fen())
		}
		_, pseudo := p.ParsePseudo(cg.illegal)
		fmt.Fprintf(&log, "game %d: %s in %s pseudo=%v\n", i, cg.illegal, p.Fen(), pseudo)
	}
}

package verifsim

import (
	"fmt"
	"os"
	"time"
	"testing"
	"testing/synctest"

	"github.com/frankkopp/FrankyGo/internal/movegen"
	"github.com/frankkopp/FrankyGo/internal/position"
	"github.com/frankkopp/FrankyGo/internal/search"
)

func TestDbgPonder(t *testing.T) {
	if os.Getenv("DBG") == "" {
		t.Skip()
	}
	ResetEngineGlobals(nil)
	synctest.Test(t, func(t *testing.T) {
		sim := NewSim(1, CostModel{Every: 16, BaseNs: 1680})
		SetCurrent(sim)
		defer SetCurrent(nil)
		s := search.NewSearch()
		p := position.NewPosition()
		mg := movegen.NewMoveGen()
		for _, m := range []string{"f2f4", "d7d6", "b1a3", "c8h3", "e2e4", "d8d7", "b2b3", "h3g4", "a3b1", "d6d5", "g1h3", "g4h3", "b1a3", "d7a4", "e4d5", "b8c6", "c2c3", "g8h6", "d1e2", "c6a5", "e2f2", "a7a6", "a3b5"} {
			p.DoMove(mg.GetMoveFromUci(p, m))
		}
		sl0 := search.NewSearchLimits()
		sl0.TimeControl = true
		sl0.WhiteTime, sl0.BlackTime, sl0.WhiteInc, sl0.BlackInc, sl0.MovesToGo = 92*time.Millisecond, 104*time.Millisecond, 29*time.Millisecond, 4*time.Millisecond, 19
		s.StartSearch(*position.NewPosition(), *sl0)
		s.WaitWhileSearching()
		r0 := s.LastSearchResult()
		fmt.Fprintf(os.Stderr, "result0: %s\n", r0.String())
		sim.ActorSleep(offCtl, 30000)
		sl := search.NewSearchLimits()
		sl.Nodes = 1508
		s.StartSearch(*p, *sl)
		sim.ActorSleep(offCtl, 2000)
		s.StopSearch()
		r := s.LastSearchResult()
		fmt.Fprintf(os.Stderr, "result: %s\n nodes=%d\n", r.String(), s.NodesVisited())
		DrainEngine(sim, offCtl)
	})
}

package verifsim

import (
	"strings"

	"github.com/frankkopp/FrankyGo/verifsim/rules"
)

// CornerCorpus: positions one ply before a check that has exactly one legal
// reply, harvested with the rules model (random placements / playouts, kept
// by kind of the only reply). They put the move generator's evasion paths
// (en passant capture of a checking pawn, capture of the checker, the single
// interposition, king captures) right below the root, where the search's
// mate/stalemate classification has to get them right.
var CornerCorpus = []string{
	// the only reply to the pawn check is the en passant capture
	"8/8/3R4/5Nk1/6p1/3N2N1/5P1B/7K w - - 0 1",
	"8/4N3/8/2k5/2N1p3/2Q5/KQ1P4/8 w - - 0 1",
	"8/7K/8/R1N2k2/5p2/8/1B2P1R1/8 w - - 0 1",
	"8/8/N5Q1/3k4/Kp6/N7/1QP5/4N3 w - - 0 1",
	"8/5B2/5Q2/2k5/K3p3/R7/3P2NQ/8 w - - 0 1",
	"8/8/2Q5/k7/2p5/8/1P6/1R1K4 w - - 0 1",
	"3N4/1P6/B7/1P2kNK1/4p3/1Q6/5P2/8 w - - 0 1",
	"8/8/3Q4/k7/p7/K7/1P6/5Q2 w - - 0 1",
	"1N6/K7/R7/1k3N1N/1p1R4/2Q5/P7/8 w - - 0 1",
	"5B2/8/2R5/2K1k3/4p2R/4N3/3PN3/8 w - - 0 1",
	"8/3N3R/1K3P1R/6k1/6p1/3N2N1/7P/8 w - - 0 1",
	"8/1K6/8/3k4/1B1p1R2/8/2P1Q1N1/7R w - - 0 1",
	"8/3N4/2Q5/k7/p7/2K5/1P6/8 w - - 0 1",
	"3QQ3/8/5P2/2k5/2p1K1Q1/8/1P6/1R6 w - - 0 1",
	"2r1k1r1/Q4p1p/3pp1pb/4P3/P1n2NKP/1P4P1/5Pq1/RNR5 b - - 3 32",
	// single reply: capture of the checker / interposition / king capture / king move
	"1k6/8/2K5/8/8/8/8/R7 w - - 10 6",
	"7k/7p/6p1/8/2r1R3/8/8/1K6 w - - 6 5",
	"4b3/1rp3Bk/8/1pp5/1pPPr2p/P6P/5NP1/4Q1K1 b - - 9 28",
	"N7/8/8/1k6/5B2/7B/K7/2q2bb1 b - - 9 17",
	"r3brk1/1p3pp1/2p3P1/p1PN4/1P1PP1P1/7B/P2K3P/2R4R w - - 3 28",
	"r1b2r1k/pp4p1/8/2pnn2p/8/N1PQ4/P2B1PPP/R3KB1R w - - 0 21",
	"3k3r/4R3/7r/8/8/8/8/R4K2 w - - 9 6",
	"6q1/5k2/8/8/8/7K/8/8 b - - 23 23",
	"5R2/3k4/7K/8/8/3r2q1/7Q/8 b - - 27 14",
	"2k5/1p6/pB4pp/4pR2/qP6/3Q3b/P1Pr4/2K2B2 b - - 7 9",
	"k4rq1/2Q5/p6p/1p2p3/P5P1/2K2R2/N1P3B1/8 w - - 5 21",
	"2r3rk/1p3pp1/1nn2N2/p2pqQ1p/2pP4/2PN4/PPB3KP/1R2R3 w - - 2 11",
	"1rb1kb1r/4pp2/5qNB/pP5p/2B1p3/2n5/1P1R2Pn/1R2K3 b k - 0 28",
	"2r1k3/8/7R/8/3R4/8/6r1/4K3 b - - 7 4",
	"8/5p2/2R5/6pp/7k/5P2/6PP/6K1 w - - 0 79",
	"2r1rq1k/1p3ppB/pnn1bN1p/3pNR2/2pP4/2P5/PP1Q3P/R5K1 w - - 6 5",
	"r1b2b2/ppB2p1r/2n1knp1/1P1p4/1Qppq1p1/P5KB/R1PN1P1P/6NR b - - 1 20",
	"k7/1p6/4b1Qp/2B1p2B/8/1P6/P1P2rq1/2K5 w - - 0 13",
	"2b3n1/rp1p4/1BR5/p3kp2/P3P3/N1P1K3/RP3PP1/1N3B2 w - f6 0 27",
	"1rr4k/p2b2p1/4pN2/np2N1B1/P2P2Pp/7Q/1P2BP1P/1q2RR1K w - - 3 28",
}

// mirrorFen flips the board vertically and swaps the colours.
func mirrorFen(fen string) string {
	p := rules.MustFen(fen)
	q := &rules.Pos{WhiteTo: !p.WhiteTo, Ep: -1, HalfMove: p.HalfMove, FullMove: p.FullMove}
	for sq, pc := range p.Board {
		if pc == 0 {
			continue
		}
		q.Board[(7-sq/8)*8+sq%8] = pc ^ rules.Black
	}
	if p.Castle&rules.CastleWK != 0 {
		q.Castle |= rules.CastleBK
	}
	if p.Castle&rules.CastleWQ != 0 {
		q.Castle |= rules.CastleBQ
	}
	if p.Castle&rules.CastleBK != 0 {
		q.Castle |= rules.CastleWK
	}
	if p.Castle&rules.CastleBQ != 0 {
		q.Castle |= rules.CastleWQ
	}
	if p.Ep >= 0 {
		q.Ep = (7-p.Ep/8)*8 + p.Ep%8
	}
	return q.Fen()
}

func init() {
	for _, f := range CornerCorpus {
		Corpus = append(Corpus, f)
		m := mirrorFen(f)
		if !strings.EqualFold(m, f) {
			Corpus = append(Corpus, m)
		}
	}
}

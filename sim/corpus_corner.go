package verifsim

import (
	"strings"

	"github.com/frankkopp/FrankyGo/verifsim/rules"
)

// CornerCorpus: positions one ply before a check that has exactly one legal
// reply, harvested with the rules model (random placements / playouts, kept
// by kind of the only reply). They put the move generator's evasion paths
// (en passant capture of a checking pawn, capture of the checker, the single
// interposition, king captures) right below the root, where the search's
// mate/stalemate classification has to get them right.
var CornerCorpus = []string{
	// the only reply to the pawn check is the en passant capture
	"8/8/3R4/5Nk1/6p1/3N2N1/5P1B/7K w - - 0 1",
	"8/4N3/8/2k5/2N1p3/2Q5/KQ1P4/8 w - - 0 1",
	"8/7K/8/R1N2k2/5p2/8/1B2P1R1/8 w - - 0 1",
	"8/8/N5Q1/3k4/Kp6/N7/1QP5/4N3 w - - 0 1",
	"8/5B2/5Q2/2k5/K3p3/R7/3P2NQ/8 w - - 0 1",
	"8/8/2Q5/k7/2p5/8/1P6/1R1K4 w - - 0 1",
	"3N4/1P6/B7/1P2kNK1/4p3/1Q6/5P2/8 w - - 0 1",
	"8/8/3Q4/k7/p7/K7/1P6/5Q2 w - - 0 1",
	"1N6/K7/R7/1k3N1N/1p1R4/2Q5/P7/8 w - - 0 1",
	"5B2/8/2R5/2K1k3/4p2R/4N3/3PN3/8 w - - 0 1",
	"8/3N3R/1K3P1R/6k1/6p1/3N2N1/7P/8 w - - 0 1",
	"8/1K6/8/3k4/1B1p1R2/8/2P1Q1N1/7R w - - 0 1",
	"8/3N4/2Q5/k7/p7/2K5/1P6/8 w - - 0 1",
	"3QQ3/8/5P2/2k5/2p1K1Q1/8/1P6/1R6 w - - 0 1",
	"2r1k1r1/Q4p1p/3pp1pb/4P3/P1n2NKP/1P4P1/5Pq1/RNR5 b - - 3 32",
	// single reply: capture of the checker / interposition / king capture / king move
	"1k6/8/2K5/8/8/8/8/R7 w - - 10 6",
	"7k/7p/6p1/8/2r1R3/8/8/1K6 w - - 6 5",
	"4b3/1rp3Bk/8/1pp5/1pPPr2p/P6P/5NP1/4Q1K1 b - - 9 28",
	"N7/8/8/1k6/5B2/7B/K7/2q2bb1 b - - 9 17",
	"r3brk1/1p3pp1/2p3P1/p1PN4/1P1PP1P1/7B/P2K3P/2R4R w - - 3 28",
	"r1b2r1k/pp4p1/8/2pnn2p/8/N1PQ4/P2B1PPP/R3KB1R w - - 0 21",
	"3k3r/4R3/7r/8/8/8/8/R4K2 w - - 9 6",
	"6q1/5k2/8/8/8/7K/8/8 b - - 23 23",
	"5R2/3k4/7K/8/8/3r2q1/7Q/8 b - - 27 14",
	"2k5/1p6/pB4pp/4pR2/qP6/3Q3b/P1Pr4/2K2B2 b - - 7 9",
	"k4rq1/2Q5/p6p/1p2p3/P5P1/2K2R2/N1P3B1/8 w - - 5 21",
	"2r3rk/1p3pp1/1nn2N2/p2pqQ1p/2pP4/2PN4/PPB3KP/1R2R3 w - - 2 11",
	"1rb1kb1r/4pp2/5qNB/pP5p/2B1p3/2n5/1P1R2Pn/1R2K3 b k - 0 28",
	"2r1k3/8/7R/8/3R4/8/6r1/4K3 b - - 7 4",
	"8/5p2/2R5/6pp/7k/5P2/6PP/6K1 w - - 0 79",
	"2r1rq1k/1p3ppB/pnn1bN1p/3pNR2/2pP4/2P5/PP1Q3P/R5K1 w - - 6 5",
	"r1b2b2/ppB2p1r/2n1knp1/1P1p4/1Qppq1p1/P5KB/R1PN1P1P/6NR b - - 1 20",
	"k7/1p6/4b1Qp/2B1p2B/8/1P6/P1P2rq1/2K5 w - - 0 13",
	"2b3n1/rp1p4/1BR5/p3kp2/P3P3/N1P1K3/RP3PP1/1N3B2 w - f6 0 27",
	"1rr4k/p2b2p1/4pN2/np2N1B1/P2P2Pp/7Q/1P2BP1P/1q2RR1K w - - 3 28",
	// a check can be given to a king that still has castling rights and a free
	// path to its rook (castling out of check must never be generated / played)
	"rnbqk2r/ppp1bppp/5n2/8/3NP3/8/PPP2PPP/RNBQKB1R w KQkq - 0 6",
	"rnbqk2r/ppp1bppp/5n2/4p3/4P3/5N2/PPP2PPP/RNBQKB1R w KQkq - 0 5",
	"r1bqk2r/pppp1ppp/2n2n2/2b1p3/2B1P3/2N2N2/PPPP1PPP/R1BQK2R w KQkq - 6 5",
	"r1bqk2r/1p1p1nbp/1Np2pp1/p1n1p3/3PPPQP/P1P4N/1P4P1/R1B1KB1R w KQkq - 5 13", // g4e6+
	"r3kb1r/1ppqpp1p/p3b1p1/3p4/PP1n1nP1/2NPP3/1BP1QP1P/R3KBNR b KQkq - 3 12",   // d4f3+
	"rnbqk2r/pppp4/5np1/4pp1p/2P1N3/bP1P2PP/P3PP2/RNBQKB1R w KQkq - 1 9",        // e4f6+
	"r1bqkb2/ppp1p1p1/2Np3r/5pnp/1P2N1P1/3BP2P/P1PP1P2/R1BQK2R b KQq - 3 11",    // g5f3+
	"rn2k2r/pbpqppbp/3p1n2/1P4p1/P2PP3/R7/QP3PPP/1NB1KBNR w Kkq - 6 9",          // a2f7+
	"rnb1kbnr/1p1ppp1p/p2q2p1/2p5/2P3PP/BP2P2N/P1QPBP2/RN2K2R b KQkq g3 0 9",    // d6d2+
	"rn1qkbn1/ppp1p1p1/3pBP2/7r/5P1p/N5PN/PPPP3P/R1BQK2R b KQ - 0 9",            // h5e5+
	"r1bqk2r/ppp2pp1/n2pp3/5n1p/2Pb1PPP/1Q1R4/PP1PP3/RNB1KBN1 w Qkq - 0 9",      // b3a4+
	"1rbqk2r/p1ppnppp/1pn5/4p3/1PN5/7N/P1PPP1PP/R1BQKB1R w KQk - 3 9",           // c4d6+
	"r3kb1r/pbp3pp/7R/n2ppp2/1p3PP1/N3P3/PPPP4/R1BQ1BNK w kq - 1 13",            // f1b5+
	"r1N1k1nr/1ppp3p/n2b2p1/4ppq1/3P4/7N/PPP1PPPP/R1BQKB1R w KQkq - 1 7",        // c8d6+
	"rnbqkb1r/p1pp1ppp/1p6/4pn2/8/P2P1NP1/1PP1PPBP/RNBQK2R b KQkq - 0 5",        // f8b4+
	"r1bNkbr1/pppp1ppp/2P5/4p3/8/NP2n3/P2PPPPP/R1BQK2R b KQq - 2 9",             // e3c2+
	"rnb1k2r/pppp1p1p/5np1/2P1p3/P3P3/4BN2/RP2K1PP/1N1Q1B1R w kq - 1 12",        // d1d7+
	"rn2k2r/p1p2ppp/1p3q1n/3p4/1b6/NPQ3P1/P1P2P1P/R3KBNb w Qkq - 0 12",          // f1b5+
	"2bqk2r/rpppp2p/3n1Qpb/8/3nP3/2N2P2/PPPP2PP/R1B1KBNR w KQk - 1 12",          // f6e7+
	"rnbqk2r/p2p1p1N/1p2p3/2p2np1/PPP4b/4PQP1/3P1P1P/RNB1KB1R w KQkq - 0 10",    // h7f6+
	"1nb1kb1r/rp2n1pp/p1p5/QB1q1p2/8/2P1P1PN/PP1P1P1P/RNB1K2R b KQk - 9 12",     // d5d2+
	"r3k2r/pb1pnpbp/1Q4p1/1PP5/1P2p3/B3P3/P4PPP/RN2KBNR w KQkq - 0 12",          // b6d8+
	"rnb2bnr/1p1kp1pp/5q2/pPpp1p2/6P1/B2PPN2/P1P1BP1P/RN1QK2R b KQ - 0 12",      // f6c3+
	"rnbqk1r1/1p1pnp1p/2pb4/p4Pp1/PP2p2P/N2BP2N/R1PP2P1/2BQK2R b Kq - 1 10",     // d6g3+
	"rn2k2r/p2p1ppp/b2b1q2/3BpnP1/2P4P/1P6/P2PPP2/RN1QK1NR w KQkq - 1 12",       // d5f7+
	"r1bq1knr/p1ppb3/np3p1p/1N4p1/P2Q1B2/8/1PP1PPPP/R3KBNR b KQ - 0 12",         // e7b4+
	"r3kBnr/p1pnq3/1pP2pp1/1P1pp2p/2B2P2/4P3/P1bP2PP/RN1QK1NR w KQkq - 1 13",    // c6d7+
	"rn2k1nr/pp2p2p/3p3b/2p2Pp1/PqP1B3/RP5N/3PbP1P/1NBQK2R b Kkq - 0 12",        // b4d2+
	"rnb1k2r/p2p2bp/5q1n/2p1ppN1/1PpPP3/N7/P3BPPP/R1BQ1K1R w kq - 2 13",         // e2h5+
	"r3kbr1/pp5p/n4PPR/2pp2p1/4P3/5bP1/PPPB1P2/RN1QKB2 w Qq - 0 13",             // f6f7+
	"rnb1k1nB/1p1p1p1p/p1p5/4p1p1/1bB3PP/4PN2/P1PP1P2/RNqQK2R b KQq - 1 11",     // c1d2+
}

// mirrorFen flips the board vertically and swaps the colours.
func mirrorFen(fen string) string {
	p := rules.MustFen(fen)
	q := &rules.Pos{WhiteTo: !p.WhiteTo, Ep: -1, HalfMove: p.HalfMove, FullMove: p.FullMove}
	for sq, pc := range p.Board {
		if pc == 0 {
			continue
		}
		q.Board[(7-sq/8)*8+sq%8] = pc ^ rules.Black
	}
	if p.Castle&rules.CastleWK != 0 {
		q.Castle |= rules.CastleBK
	}
	if p.Castle&rules.CastleWQ != 0 {
		q.Castle |= rules.CastleBQ
	}
	if p.Castle&rules.CastleBK != 0 {
		q.Castle |= rules.CastleWK
	}
	if p.Castle&rules.CastleBQ != 0 {
		q.Castle |= rules.CastleWQ
	}
	if p.Ep >= 0 {
		q.Ep = (7-p.Ep/8)*8 + p.Ep%8
	}
	return q.Fen()
}

func init() {
	for _, f := range CornerCorpus {
		Corpus = append(Corpus, f)
		m := mirrorFen(f)
		if !strings.EqualFold(m, f) {
			Corpus = append(Corpus, m)
		}
	}
}

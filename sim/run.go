package verifsim

import (
	"encoding/json"
	"fmt"
	"hash/fnv"
	"os"
	"runtime"
	"sort"
	"strings"
	"testing"
	"testing/synctest"
	"time"
)

// Generate builds the scenario for (property, seed).
func Generate(prop string, seed uint64) *Scenario {
	switch prop {
	case "C07":
		if seed%4 == 0 {
			// root half of C07 (value reported for roots without legal moves) is observable at API level
			return GenApiScript(prop, seed)
		}
		return GenUciSession(prop, seed)
	case "C12", "C05":
		return GenUciSession(prop, seed)
	case "C13":
		if seed%3 != 0 {
			return GenGame(prop, seed)
		}
		return GenUciSession(prop, seed)
	case "C16":
		return GenC16Session(seed)
	case "C11":
		return GenTT(seed)
	case "C19":
		return GenBook(seed)
	case "C20":
		return GenCache(seed)
	case "C14":
		if seed%4 == 3 {
			return GenUciSession(prop, seed)
		}
		return GenApiScript(prop, seed)
	}
	return GenUciSession(prop, seed)
}

// RunScenario executes one scenario in a fresh bubble and evaluates its oracles.
func RunScenario(t *testing.T, sc *Scenario) *RunResult {
	res := &RunResult{Seed: sc.Seed, Prop: sc.Prop, Kind: sc.Kind}
	start := time.Now()
	if err := ResetEngineGlobals(sc.Config); err != nil {
		res.Harness = err.Error()
		return res
	}
	if sc.Kind == "cache" {
		// no schedule or clock to control: runs outside the bubble (see book.go)
		out := RunCache(sc)
		res.Violations = append(res.Violations, out.Violations...)
		res.Faults = out.Faults
		keys := make([]string, 0, len(out.Distinct))
		for k := range out.Distinct {
			keys = append(keys, k)
		}
		sort.Strings(keys)
		res.Signature = fmt.Sprintf("%d games:%s", len(sc.Book.Games), strings.Join(keys, ","))
		if len(res.Signature) > 200 {
			h := fnv.New64a()
			h.Write([]byte(res.Signature))
			res.Signature = fmt.Sprintf("%016x", h.Sum64())
		}
		res.TraceHash = res.Signature
		res.NonTrivial = out.Cases > 1
		res.count("cache_cases", int64(out.Cases))
		res.count("cache_cases_undecodable", int64(out.Undecodable))
		res.count("cache_bytes", int64(out.CacheLen))
		if out.Exhaustive {
			res.count("exhaustive_prefix_books", 1)
		}
		res.count("distinct_damage_cases", int64(len(out.Distinct)))
		res.WallMs = time.Since(start).Milliseconds()
		for _, v := range res.Violations {
			if v.Class == "init_hangs_lock_held" {
				// the package level lock stays held in this process
				res.ExitAfter = true
			}
		}
		return res
	}
	if sc.Procs > 0 && sc.Kind == "tt" {
		prev := runtime.GOMAXPROCS(sc.Procs)
		defer runtime.GOMAXPROCS(prev)
	}
	expectDeadlock := false
	// every scenario runs as a subtest: a failure the testing package raises
	// inside the bubble (e.g. "race detected during execution of test") must
	// not end the worker's loop over seeds
	t.Run(fmt.Sprintf("seed%d", sc.Seed), func(t *testing.T) {
		defer func() {
			if r := recover(); r != nil {
				msg := fmt.Sprint(r)
				if strings.Contains(msg, "deadlock") && expectDeadlock {
					// the controller was reported as blocked; its goroutine stays behind
				} else if strings.Contains(msg, "deadlock") {
					buf := make([]byte, 1<<16)
					n := runtime.Stack(buf, true)
					res.addViolation(sc.Prop, "bubble_deadlock", msg+" | blocked: "+blockedEngineFrames(string(buf[:n])))
				} else {
					res.Harness = "panic in bubble: " + msg
				}
			}
		}()
		synctest.Test(t, func(t *testing.T) {
			switch sc.Kind {
			case "uci":
				out := RunUciScript(sc)
				finishUci(sc, out, res)
			case "game":
				out := RunGame(sc)
				finishGame(sc, out, res)
			case "book":
				out := RunBook(sc)
				res.Violations = append(res.Violations, out.Violations...)
				res.Faults, res.Probes = out.Faults, out.Probes
				res.Signature = strings.Join(out.GrantHash, "+")
				if len(out.GrantHash) > 0 {
					res.Signature = out.GrantHash[0]
				}
				res.NonTrivial = out.Builds > 1
				res.TraceHash = fmt.Sprintf("%016x/%s", out.Hash, strings.Join(out.GrantHash, "+"))
				res.SimNs = out.Sim.Now()
				res.count("builds", int64(out.Builds))
				res.count("entries", int64(out.Entries))
				res.count("lock_grants", int64(len(out.Sim.BookGrants)))
				if out.Sim.Reentry {
					res.Harness = "slot allocator re-entered"
				}
			case "tt":
				out := RunTT(sc)
				res.Violations = append(res.Violations, out.Violations...)
				res.Faults, res.Probes = out.Faults, out.Probes
				res.Signature = fmt.Sprintf("%016x", out.StateHash)
				res.NonTrivial = out.Faults["F12_index_collision"] > 0
				res.TraceHash = fmt.Sprintf("%016x", out.StateHash)
				res.SimNs = out.Sim.Now()
				res.count("ops", int64(out.Ops))
			case "api":
				out := RunApiScript(sc)
				finishApi(sc, out, res)
				expectDeadlock = out.Blocked != nil
			default:
				res.Harness = "unknown scenario kind " + sc.Kind
			}
		})
	})
	res.WallMs = time.Since(start).Milliseconds()
	return res
}

func finishUci(sc *Scenario, out *UciRunOut, res *RunResult) {
	sim := out.Sim
	if res.Faults == nil {
		res.Faults = map[string]int{}
	}
	CheckUciHistory(sc, out, res)
	checkSimCommon(sc, sim, res)
	if hasGroup(sc.Checks, "c16") {
		CheckFenHalf(sc, res)
	}
	for k, v := range out.Faults {
		for i := 0; i < v; i++ {
			res.fault(k)
		}
	}
	for k, v := range out.Probes {
		for i := 0; i < v; i++ {
			res.probe(k)
		}
	}
	if sim.TimerFires-len(sim.StaleFires) > 0 {
		res.Faults["F2_timeout_mid_search"] += sim.TimerFires - len(sim.StaleFires)
	}
	for _, a := range out.Arrivals {
		fmt.Fprintln(os.Stderr, "ARRIVAL", a)
	}
	res.Signature = fmt.Sprintf("%016x", out.SigHash)
	res.NonTrivial = len(res.Faults) > 0
	res.TraceHash = sim.TraceHash()
	res.SimNs = sim.Now()
	res.Yields = sim.Yields
	if len(res.Violations) > 0 || KeepHistory {
		b, _ := json.Marshal(out.Hist)
		res.Sample = b
	}
}

func finishApi(sc *Scenario, out *ApiRunOut, res *RunResult) {
	sim := out.Sim
	if res.Faults == nil {
		res.Faults = map[string]int{}
	}
	CheckApi(sc, out, res)
	checkSimCommon(sc, sim, res)
	if out.Blocked != nil {
		// the run was aborted on purpose
		if res.Harness == "slot budget exhausted" {
			res.Harness = ""
		}
	}
	for k, v := range out.Faults {
		res.Faults[k] += v
	}
	for k, v := range out.Probes {
		for i := 0; i < v; i++ {
			res.probe(k)
		}
	}
	if sim.TimerFires-len(sim.StaleFires) > 0 {
		res.Faults["F2_timeout_mid_search"] += sim.TimerFires - len(sim.StaleFires)
	}
	res.Signature = fmt.Sprintf("%016x", out.SigHash)
	res.NonTrivial = len(res.Faults) > 0
	res.TraceHash = sim.TraceHash()
	res.SimNs = sim.Now()
	res.Yields = sim.Yields
	res.count("results", int64(len(out.Results)))
	if len(res.Violations) > 0 || KeepHistory {
		b, _ := json.Marshal(map[string]interface{}{"calls": out.Calls, "results": out.Results, "final": out.Final})
		res.Sample = b
	}
}

func finishGame(sc *Scenario, out *GameOut, res *RunResult) {
	sim := out.Sim
	if res.Faults == nil {
		res.Faults = map[string]int{}
	}
	CheckGame(sc, out, res)
	// the session oracles (one bestmove per go, legal moves, playable pv) hold for games too
	uo := &UciRunOut{Hist: out.Hist, Sim: sim}
	sc2 := *sc
	sc2.Checks = []string{"c05", "c12"}
	CheckUciHistory(&sc2, uo, res)
	checkSimCommon(sc, sim, res)
	for k, v := range out.Faults {
		res.Faults[k] += v
	}
	for k, v := range out.Probes {
		for i := 0; i < v; i++ {
			res.probe(k)
		}
	}
	if sc.Game != nil {
		// supplementary pure sweep of the budget function along the announced control
		side := "w"
		_ = side
		if bad, n := BudgetSequenceCheck(sc.Game.StartFen, true, sc.Game.WTimeMs, sc.Game.WIncMs, sc.Game.MovesToGo); bad != "" {
			res.addViolation("C13", "budget_exceeds_remaining", "budget sequence: "+bad)
		} else {
			res.count("budget_sequence_steps", int64(n))
		}
	}
	res.Signature = fmt.Sprintf("%016x", out.SigHash)
	res.NonTrivial = len(res.Faults) > 0 || res.Counters["allotted_samples"] > 0
	res.TraceHash = sim.TraceHash()
	res.SimNs = sim.Now()
	res.Yields = sim.Yields
	if out.Aborted == "slot budget" {
		res.Harness = "slot budget exhausted"
	}
	if len(res.Violations) > 0 || KeepHistory {
		b, _ := json.Marshal(map[string]interface{}{"moves": out.Moves, "aborted": out.Aborted})
		res.Sample = b
	}
}

// KeepHistory makes every run carry its history (debugging / samples).
var KeepHistory = false

// checkSimCommon evaluates the invariants every engine simulation carries:
// the C07 terminal-node monitor and harness self-checks.
//
//go:norace
func checkSimCommon(sc *Scenario, sim *Sim, res *RunResult) {
	if sim.Reentry {
		res.Harness = "slot allocator re-entered: one-goroutine-per-instant invariant broken"
	}
	if sim.Exhausted {
		res.Harness = "slot budget exhausted"
	}
	for _, tv := range sim.TermBad {
		res.addViolation("C07", "bad_terminal_"+tv.Kind, fmt.Sprintf("search scored %s at %s but rules model finds %d legal moves, in check=%v", tv.Kind, tv.Fen, tv.Legal, tv.Check))
	}
	res.count("terminal_classifications", int64(sim.TermMate+sim.TermStale))
	res.count("terminal_distinct_checked", int64(sim.TermChecked))
	res.count("stalls_hit", int64(sim.StallsHit))
	res.count("setup_stalls", int64(sim.SetupStalls))
	if sim.SetupStalls > 0 {
		res.fault("F3_setup_stall")
	}
	if sim.TimerFireStalls > 0 {
		res.fault("F3_timer_descheduled_before_firing")
	}
	res.count("stale_timer_fires", int64(len(sim.StaleFires)))
	if sim.StallsHit > 0 {
		res.fault("F3_stall")
	}
}

// blockedEngineFrames summarises, per goroutine of a stack dump, the
// innermost engine frame (used to describe deadlocks).
func blockedEngineFrames(dump string) string {
	var out []string
	for _, g := range strings.Split(dump, "\n\n") {
		if !strings.Contains(g, "synctest") && !strings.Contains(g, "FrankyGo/internal") {
			continue
		}
		lines := strings.Split(g, "\n")
		state := ""
		if len(lines) > 0 {
			state = lines[0]
		}
		for _, l := range lines[1:] {
			if strings.Contains(l, "FrankyGo/internal") && !strings.HasPrefix(l, "\t") {
				if i := strings.Index(l, "("); i > 0 {
					l = l[:i]
				}
				out = append(out, strings.TrimSpace(state)+" "+strings.TrimPrefix(strings.TrimSpace(l), "github.com/frankkopp/FrankyGo/internal/"))
				break
			}
		}
	}
	return strings.Join(out, "; ")
}

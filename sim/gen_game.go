package verifsim

import "github.com/frankkopp/FrankyGo/verifsim/rules"

// GenGame generates a simulated clocked game (C13).
func GenGame(prop string, seed uint64) *Scenario {
	rng := NewPRNG(seed, "game/"+prop)
	sc := &Scenario{Prop: prop, Kind: "game", Seed: seed, Checks: []string{"c13", "c05"}, PollUs: 20}
	g := &GameSpec{}
	// start: start position with an opening playout, or a corpus position
	if rng.Chance(0.5) {
		g.StartFen = rules.StartFen
		p := rules.MustFen(rules.StartFen)
		g.Opening = Playout(p, rng.Range(0, 24), rng)
	} else {
		for {
			g.StartFen = Corpus[rng.Intn(len(Corpus))]
			p := rules.MustFen(g.StartFen)
			if len(p.LegalMoves()) > 1 && p.HalfMove < 60 {
				break
			}
		}
	}
	// clock: remaining time from 100 ms to 2 h, increment from 0 to 100x remaining
	remain := rng.LogRange(100, 7_200_000)
	g.WTimeMs = remain
	g.BTimeMs = remain
	if rng.Chance(0.3) {
		g.BTimeMs = rng.LogRange(100, 7_200_000)
	}
	switch rng.Intn(4) {
	case 0:
		// no increment
	case 1:
		g.WIncMs = rng.LogRange(1, max64(remain/10, 2))
	case 2:
		g.WIncMs = rng.LogRange(1, remain)
	case 3:
		g.WIncMs = rng.LogRange(remain, remain*100)
	}
	g.BIncMs = g.WIncMs
	if rng.Chance(0.5) {
		// time-odds games / GUIs that send only one side's increment
		g.BIncMs = []int64{0, rng.LogRange(1, max64(remain, 2)), rng.LogRange(1, max64(remain*100, 2))}[rng.Intn(3)]
		if rng.Chance(0.3) {
			g.WIncMs = 0
		}
	}
	switch rng.Intn(3) {
	case 0:
		g.MovesToGo = 0
	case 1:
		g.MovesToGo = rng.Range(1, 5)
	case 2:
		g.MovesToGo = widenMovesToGo(rng.Range(1, 40))
	}
	g.GuiLagUs = rng.LogRange(1, 20000)
	if g.StartFen == rules.StartFen && rng.Chance(0.35) {
		// play out of a small opening book: book moves first, then the
		// "first move after the book" path with its extra time
		g.UseBook = true
		g.Opening = nil
		if rng.Chance(0.4) {
			// fixed time per move instead of clocks
			g.MoveTimeMs = rng.LogRange(20, 3000)
		}
	}
	// cost model: time compression. One stop check costs base ns of fake
	// time; base is chosen so that one move needs at most ~200k stop checks
	// of real work (1 us .. 1 ms per check), and the search yields every 8th
	// check. The overshoot allowance of the oracle scales with the cost of a
	// check (unwinding needs a bounded number of checks).
	// plan the clock over the game (increments and refills make later
	// budgets larger than the first one)
	wantPlies := rng.Range(2, 24)
	var maxBudget, sumBudget int64
	r := [2]int64{g.WTimeMs * 1_000_000, g.BTimeMs * 1_000_000}
	left := [2]int{g.MovesToGo, g.MovesToGo}
	var budgets []int64
	for k := 0; k < wantPlies; k++ {
		sd := k % 2
		m := int64(left[sd])
		if m == 0 {
			m = 20
		}
		b := r[sd]/m + g.WIncMs*1_000_000
		if b > r[sd] {
			b = r[sd]
		}
		if g.MoveTimeMs > 0 {
			b = g.MoveTimeMs * 1_000_000
		}
		budgets = append(budgets, b)
		r[sd] += g.WIncMs*1_000_000 - b
		if left[sd] > 0 {
			left[sd]--
			if left[sd] == 0 {
				left[sd] = g.MovesToGo
				r[sd] += remain * 1_000_000
			}
		}
	}
	for _, b := range budgets {
		if b > maxBudget {
			maxBudget = b
		}
	}
	base := maxBudget / 200_000
	if base < 1000 {
		base = int64(rng.LogRange(1000, 10000))
	}
	if base > 1_000_000 {
		base = 1_000_000
	}
	sc.Cost = CostModel{Every: 8, BaseNs: int(base), JitterNs: rng.Intn(int(base)/4 + 1)}
	g.Plies = 0
	for _, b := range budgets {
		sumBudget += b
		if sumBudget/base > 1_500_000 && g.Plies >= 2 {
			break
		}
		g.Plies++
	}
	sc.Game = g
	return sc
}

// widenMovesToGo maps the upper fifth of the drawn range 1..40 to long
// controls (60, 80, ... 200 moves to go) without a further draw: controls
// like 80 moves in 2 h announce more moves than any estimate the engine
// makes by itself.
func widenMovesToGo(v int) int {
	if v > 32 {
		return 40 + (v-32)*20
	}
	return v
}

package verifsim

import (
	"fmt"
	"regexp"
	"strconv"
	"strings"

	"github.com/frankkopp/FrankyGo/verifsim/rules"
)

// Allowances, stated in simulator units (never copied from engine constants).
const (
	readyBoundNs      = 50 * 1_000_000 // isready -> readyok
	stopChecksBound   = 2000           // stop-check executions allowed for unwinding
	stopSlackNs       = 10 * 1_000_000 // plus 10 fake ms (covers a polling period)
	moveTimeSlackNs   = 10 * 1_000_000 // movetime scheduling allowance
	nodesOvershootAdd = 64             // node limit overshoot: legal root moves + 64
)

type goTrack struct {
	line      string
	limits    LimitSpec
	parsed    bool
	root      *rules.Pos // nil if unknown
	tIn       int64
	seqIn     int
	stopT     int64
	hitT      int64
	newgameT  int64
	infos     []string
	lastDepth int
	lastNodes int64
	damaged   bool
}

func (r *RunResult) stallAllowanceNs(sc *Scenario) int64 {
	var a int64
	for _, s := range sc.Cost.Stalls {
		a += int64(s.DurUs) * 1000
	}
	if sc.Cost.SetupStallPct > 0 {
		a += int64(sc.Cost.SetupStallMaxUs) * 1000
	}
	if sc.Cost.TimerFireStallPct > 0 {
		a += 2 * int64(sc.Cost.TimerFireStallMaxUs) * 1000 // late start and late firing
	}
	return a
}

func hasGroup(groups []string, g string) bool {
	for _, x := range groups {
		if x == g {
			return true
		}
	}
	return false
}

// rootExcluded reports whether the root is outside C05's "non-terminal"
// quantifier: no legal move, or already a draw by the fifty-move rule or by
// a third occurrence in the supplied game history.
func rootExcluded(root *rules.Pos) bool {
	if root == nil {
		return true
	}
	if len(root.LegalMoves()) == 0 {
		return true
	}
	if root.HalfMove >= 100 || root.Repetitions() >= 2 {
		return true
	}
	return false
}

// CheckUciHistory evaluates the history oracles of C12, C05, C13 and C16 on
// a scripted UCI run.
func CheckUciHistory(sc *Scenario, out *UciRunOut, res *RunResult) {
	groups := sc.Checks
	c12 := hasGroup(groups, "c12")
	c05 := hasGroup(groups, "c05")
	c13 := hasGroup(groups, "c13")
	c16 := hasGroup(groups, "c16")
	c14 := hasGroup(groups, "c14")
	prevBest := ""

	// map in-line ordinal -> step
	stepOfIn := map[int]int{}
	for i, k := range out.StepIn {
		if k >= 0 {
			stepOfIn[k] = i
		}
	}

	model := rules.MustFen(rules.StartFen)
	modelKnown := true
	var pending *goTrack
	var readyAt int64 = -1
	readySeq := 0
	inOrd := -1
	stall := res.stallAllowanceNs(sc)
	perCheck := int64(sc.Cost.BaseNs) + int64(sc.Cost.JitterNs)
	stopBound := stopChecksBound*perCheck + stopSlackNs + stall

	finishGo := func(g *goTrack, best HistLine) {
		f := strings.Fields(best.Text)
		bm, pm := "", ""
		if len(f) >= 2 {
			bm = f[1]
		}
		if len(f) >= 4 && f[2] == "ponder" {
			pm = f[3]
		}
		if g.damaged || !g.parsed {
			return
		}
		// C12: infinite / ponder must not be answered before stop (or ponderhit)
		if c12 && g.limits.needsStop() && g.stopT < 0 && g.newgameT < 0 && !(g.limits.Ponder && g.hitT >= 0) {
			res.addViolation("C12", "premature_bestmove", fmt.Sprintf("%q answered by %q at t=%dus without stop/ponderhit", g.line, best.Text, best.T/1000))
		}
		// C12: stop ends the search promptly
		if c12 && g.stopT >= 0 && best.T-g.stopT > stopBound {
			res.addViolation("C12", "stop_not_prompt", fmt.Sprintf("%q: bestmove %dus after stop (bound %dus)", g.line, (best.T-g.stopT)/1000, stopBound/1000))
		}
		if g.stopT >= 0 {
			res.probe("stopped_search")
		}
		// C13: movetime deadline
		if c13 && g.limits.MoveTime > 0 && !g.limits.Ponder && !g.limits.Infinite {
			el := best.T - g.tIn
			lim := g.limits.MoveTime*1_000_000 + moveTimeSlackNs + stall
			if el > lim {
				res.addViolation("C13", "movetime_overrun", fmt.Sprintf("%q: bestmove after %dus (limit %dus)", g.line, el/1000, lim/1000))
			}
			if g.stopT < 0 {
				res.probe("movetime_expired")
				res.count("movetime_samples", 1)
			}
		}
		// C13: a ponder search with a fixed move time runs on the clock from the ponderhit
		if c13 && g.limits.MoveTime > 0 && g.limits.Ponder && g.hitT >= 0 && g.stopT < 0 {
			el := best.T - g.hitT
			lim := g.limits.MoveTime*1_000_000 + moveTimeSlackNs + stall
			if el > lim {
				res.addViolation("C13", "movetime_overrun_after_ponderhit", fmt.Sprintf("%q: bestmove %dus after ponderhit (limit %dus)", g.line, el/1000, lim/1000))
			}
			res.count("ponderhit_movetime_samples", 1)
		}
		// C13, observed view of the clock: the mover's clock runs from the go
		// (from the ponderhit for a ponder search); an answer that comes later
		// than the remaining time has lost the game on time
		if c13 && g.root != nil && g.limits.MoveTime == 0 && !g.limits.Infinite && g.stopT < 0 && (!g.limits.Ponder || g.hitT >= 0) {
			remain := g.limits.WTime
			if !g.root.WhiteTo {
				remain = g.limits.BTime
			}
			if remain > 0 {
				from := g.tIn
				if g.limits.Ponder {
					from = g.hitT
				}
				el := best.T - from
				if lim := remain*1_000_000 + moveTimeSlackNs + stall; el > lim {
					res.addViolation("C13", "clock_overrun", fmt.Sprintf("%q on %s: bestmove %dus after the clock started, only %d ms remained", g.line, g.root.Fen(), el/1000, remain))
				}
				res.count("clock_observed_samples", 1)
			}
		}
		if c14 && g.root != nil && len(g.root.LegalMoves()) > 0 && bm != "NoMove" && bm != "" && !g.root.IsLegal(bm) && bm == prevBest {
			res.addViolation("C14", "answered_by_earlier_result", fmt.Sprintf("%q on %s answered with %s, the answer of the previous search, which is not a legal move here", g.line, g.root.Fen(), bm))
		}
		prevBest = bm
		if g.root == nil {
			return
		}
		excl := rootExcluded(g.root)
		legalRoot := g.root.LegalMoves()
		if c05 {
			if excl {
				// only: if it names a move, the move is legal
				if bm != "" && bm != "NoMove" && !g.root.IsLegal(bm) {
					res.addViolation("C05", "illegal_bestmove_terminal_root", fmt.Sprintf("root %s: bestmove %s", g.root.Fen(), bm))
				}
				res.probe("excluded_root")
			} else {
				res.count("c05_searches", 1)
				if !g.root.IsLegal(bm) {
					res.addViolation("C05", "illegal_bestmove", fmt.Sprintf("root %s (%s): bestmove %q", g.root.Fen(), g.line, bm))
				} else if pm != "" {
					q := g.root.Clone()
					_ = q.Play(bm)
					if !q.IsLegal(pm) {
						res.addViolation("C05", "illegal_ponder", fmt.Sprintf("root %s (%s): bestmove %s ponder %q", g.root.Fen(), g.line, bm, pm))
					}
					res.probe("ponder_reported")
				}
				for _, inf := range g.infos {
					if bad := pvUnplayable(g.root, inf); bad != "" {
						res.addViolation("C05", "unplayable_pv", fmt.Sprintf("root %s (%s): %s in %q", g.root.Fen(), g.line, bad, inf))
						break
					}
					res.count("pv_lines_checked", 1)
					if bad := mateScoreWithoutMate(g.root, inf); bad != "" {
						res.count("mate_pv_not_ending_in_mate", 1)
						if hasGroup(sc.Checks, "c07") {
							res.addViolation("C07", "mate_score_pv_not_mate", fmt.Sprintf("root %s (%s): %s in %q", g.root.Fen(), g.line, bad, inf))
						}
					}
				}
			}
		}
		if c13 && !raceEnabled && (g.limits.WTime > 0 || g.limits.BTime > 0) && g.limits.MoveTime == 0 {
			remain, inc := g.limits.WTime, g.limits.WInc
			if !g.root.WhiteTo {
				remain, inc = g.limits.BTime, g.limits.BInc
			}
			if remain > 0 {
				if b, err := TimeBudget(g.root.Fen(), &g.limits); err == nil {
					res.count("allotted_samples", 1)
					if int64(b) > remain*1_000_000 {
						res.addViolation("C13", "budget_exceeds_remaining", fmt.Sprintf("%q on %s: engine allots %d ms but only %d ms remain", g.line, g.root.Fen(), int64(b)/1_000_000, remain))
					}
					if bad := allotmentRepeatedFits(int64(b), remain*1_000_000, inc*1_000_000, g.limits.MovesToGo); bad != "" {
						res.addViolation("C13", "budget_repeated_does_not_fit", fmt.Sprintf("%q on %s: %s", g.line, g.root.Fen(), bad))
					}
				}
			}
		}
		if c13 && !excl {
			// depth limit: completes exactly d iterations unless single legal move
			// (a ponder search becomes an ordinary search with its limits at the ponderhit)
			if g.limits.Depth > 0 && g.stopT < 0 && g.limits.Nodes == 0 && !g.limits.TimeControlled() &&
				(!g.limits.needsStop() || (g.limits.Ponder && !g.limits.Infinite && g.hitT >= 0)) {
				// (the root moves that count are the distinct legal ones of the
				// searchmoves list, if there is one)
				eff := len(legalRoot)
				if len(g.limits.Moves) > 0 {
					seen := map[string]bool{}
					for _, m := range g.limits.Moves {
						for _, lm := range legalRoot {
							if strings.EqualFold(lm.String(), m) {
								seen[strings.ToLower(m)] = true
							}
						}
					}
					eff = len(seen)
				}
				if eff > 1 {
					if g.lastDepth != g.limits.Depth {
						res.addViolation("C13", "depth_not_exact", fmt.Sprintf("%q on %s: last completed iteration %d", g.line, g.root.Fen(), g.lastDepth))
					}
					res.count("depth_samples", 1)
				}
			}
			// (whether stopped or not: an iteration beyond the depth limit is never completed)
			if g.limits.Depth > 0 && g.lastDepth > g.limits.Depth {
				res.addViolation("C13", "depth_exceeded", fmt.Sprintf("%q on %s: completed iteration %d", g.line, g.root.Fen(), g.lastDepth))
			}
			if g.limits.Nodes > 0 && g.lastNodes > int64(g.limits.Nodes)+int64(len(legalRoot))+nodesOvershootAdd {
				res.addViolation("C13", "nodes_overshoot", fmt.Sprintf("%q on %s: info reports %d nodes", g.line, g.root.Fen(), g.lastNodes))
			}
			if len(g.limits.Moves) > 0 {
				res.count("searchmoves_samples", 1)
				found := false
				for _, m := range g.limits.Moves {
					if strings.EqualFold(m, bm) {
						found = true
					}
				}
				if !found {
					res.addViolation("C13", "searchmoves_ignored", fmt.Sprintf("%q on %s: bestmove %s not in list", g.line, g.root.Fen(), bm))
				}
			}
		}
	}

	for _, h := range out.Hist {
		if h.In {
			inOrd++
			// C12.3: readyok must come before the engine handles a later command
			if readyAt >= 0 {
				if c12 || c16 {
					res.addViolation(pick(c16, "C16", "C12"), "no_readyok", fmt.Sprintf("isready at t=%dus (seq %d) not answered before next command %q", readyAt/1000, readySeq, clip(h.Text, 80)))
				}
				readyAt = -1
			}
			st, known := stepOfIn[inOrd]
			damaged := known && sc.Steps[st].Op == "damaged"
			tok := strings.Fields(h.Text)
			if len(tok) == 0 {
				continue
			}
			if damaged {
				// a damaged line may or may not have been understood
				switch tok[0] {
				case "position", "ucinewgame":
					modelKnown = false
					if tok[0] == "ucinewgame" && pending != nil {
						pending.newgameT = h.T
					}
				case "go":
					if pending == nil {
						pending = &goTrack{line: h.Text, damaged: true, tIn: h.T, stopT: -1, hitT: -1, newgameT: -1}
					}
				case "stop":
					if pending != nil {
						pending.stopT = h.T
					}
				case "ponderhit":
					if pending != nil {
						pending.hitT = h.T
					}
				case "quit":
					if pending != nil {
						pending.stopT = h.T
					}
				}
				continue
			}
			switch tok[0] {
			case "position":
				full, _, ok := parsePositionCmd(h.Text)
				if ok {
					model, modelKnown = full, true
				} else {
					modelKnown = false
					if !c16 {
						res.Harness = "generator produced invalid position command: " + clip(h.Text, 120)
					}
				}
			case "ucinewgame":
				model, modelKnown = rules.MustFen(rules.StartFen), true
				if pending != nil {
					pending.newgameT = h.T
				}
			case "go":
				l, ok := parseGoLine(h.Text)
				g := &goTrack{line: h.Text, limits: l, parsed: ok, tIn: h.T, seqIn: h.Seq, stopT: -1, hitT: -1, newgameT: -1}
				if modelKnown {
					g.root = model.Clone()
				}
				if pending != nil && !pending.damaged {
					// the GUI only sends a new go after bestmove or after it
					// gave up waiting: the earlier go was never answered
					cls := "go_unanswered"
					prop := pick(c12, "C12", pick(c13, "C13", "C05"))
					if len(pending.limits.Moves) > 0 {
						cls, prop = "go_searchmoves_unanswered", pick(c13, "C13", prop)
					}
					res.addViolation(prop, cls, fmt.Sprintf("%q was not answered by bestmove before the GUI gave up waiting", pending.line))
				}
				pending = g
			case "stop":
				if pending != nil && pending.stopT < 0 {
					pending.stopT = h.T
				}
			case "ponderhit":
				if pending != nil && pending.hitT < 0 {
					pending.hitT = h.T
				}
			case "isready":
				readyAt, readySeq = h.T, h.Seq
			}
			continue
		}
		// output line
		switch {
		case h.Text == "readyok":
			if readyAt >= 0 {
				if h.T-readyAt > readyBoundNs {
					res.addViolation(pick(c16, "C16", "C12"), "readyok_late", fmt.Sprintf("readyok %dus after isready", (h.T-readyAt)/1000))
				}
				readyAt = -1
				res.count("readyok", 1)
			}
		case strings.HasPrefix(h.Text, "bestmove"):
			if pending == nil {
				if c12 || c16 {
					res.addViolation(pick(c16 && !c12, "C16", "C12"), "unsolicited_bestmove", fmt.Sprintf("%q at t=%dus with no go pending", h.Text, h.T/1000))
				}
				continue
			}
			finishGo(pending, h)
			pending = nil
			res.count("bestmoves", 1)
		case strings.HasPrefix(h.Text, "info depth") && pending != nil:
			if strings.Contains(h.Text, " pv ") || strings.HasSuffix(h.Text, " pv") {
				pending.infos = append(pending.infos, h.Text)
				f := strings.Fields(h.Text)
				for i := 0; i+1 < len(f); i++ {
					if f[i] == "depth" {
						pending.lastDepth, _ = strconv.Atoi(f[i+1])
					}
					if f[i] == "nodes" {
						pending.lastNodes, _ = strconv.ParseInt(f[i+1], 10, 64)
					}
				}
			}
		}
	}
	if readyAt >= 0 && (c12 || c16) {
		res.addViolation(pick(c16, "C16", "C12"), "no_readyok", fmt.Sprintf("isready at t=%dus never answered", readyAt/1000))
	}
	if pending != nil && !pending.damaged {
		if c12 || c05 {
			res.addViolation(pick(c12, "C12", "C05"), "go_unanswered", fmt.Sprintf("%q never answered by bestmove (session closed with stop + 2s)", pending.line))
		}
	}

	if c12 {
		checkOptionAudit(out.Hist, res)
		checkNewGameEqualsFresh(out.Hist, res)
	}
	if c16 {
		checkDamagedSetOption(sc, out, stepOfIn, res)
	}

	// waits
	for _, w := range out.Waits {
		if w.Ok || w.BudgetStop {
			continue
		}
		st := sc.Steps[w.Step]
		switch w.Op {
		case "wait_best":
			if c12 || c05 || c13 {
				res.addViolation(pick(c13 && !c12 && !c05, "C13", pick(c12, "C12", "C05")), "search_not_terminating", fmt.Sprintf("step %d: no bestmove within %d fake ms", w.Step, st.MaxMs))
			}
		case "wait_ready":
			if c12 || c16 {
				res.addViolation(pick(c16, "C16", "C12"), "no_readyok", fmt.Sprintf("step %d: no readyok within %d fake ms", w.Step, st.MaxMs))
			}
		}
	}

	// position checks (plain build)
	for _, pc := range out.PosChecks {
		okp := false
		for _, w := range pc.Want {
			if w == pc.Got {
				okp = true
			}
		}
		if okp {
			res.count("position_checks", 1)
			continue
		}
		if pc.AfterSearch {
			if c05 {
				res.addViolation("C05", "position_modified", fmt.Sprintf("after a search the engine holds %q, before it held %q", pc.Got, pc.Want[0]))
			}
			continue
		}
		if sc.Steps[pc.Step].Op == "damaged" {
			if c16 {
				res.addViolation("C16", "position_lost", fmt.Sprintf("after damaged line %q engine holds %q, acceptable %v", pc.Line, pc.Got, pc.Want))
			}
		} else if c16 {
			// a valid position command inside a session with damaged lines
			res.addViolation("C16", "valid_position_not_set", fmt.Sprintf("after the valid command %q engine holds %q, expected %q", pc.Line, pc.Got, pc.Want[0]))
		} else if c12 {
			res.addViolation("C12", "wrong_position", fmt.Sprintf("after %q engine holds %q, expected %q", pc.Line, pc.Got, pc.Want[0]))
		}
	}

	// loop panics
	for _, lp := range out.LoopPanics {
		if lp.Msg == "" {
			if lp.Line != "quit" {
				cls := "loop_ended"
				for _, st := range sc.Steps {
					if len(st.Line) > 65536 {
						// the loop ended some time after a line longer than the input scanner's buffer
						cls = "loop_ended_after_overlong_line"
					}
				}
				res.addViolation(pick(c16, "C16", "C12"), cls, fmt.Sprintf("protocol loop ended at %q", lp.Line))
			}
			continue
		}
		prop := "C16"
		if !c16 {
			prop = "C12"
		}
		res.addViolation(prop, "panic:"+panicSite(lp.Msg), fmt.Sprintf("line %q: %s", lp.Line, clip(lp.Msg, 400)))
	}
	dropConsequences(res)
}

// dropConsequences removes violations that are mere consequences of the
// protocol loop having ended after an over-long line (one defect, one class):
// once the loop is gone nothing is answered any more.
func dropConsequences(res *RunResult) {
	ended := false
	for _, v := range res.Violations {
		if v.Class == "loop_ended_after_overlong_line" {
			ended = true
		}
	}
	if !ended {
		return
	}
	keep := res.Violations[:0]
	for _, v := range res.Violations {
		switch v.Class {
		case "no_readyok", "readyok_late", "go_unanswered", "search_not_terminating", "position_lost", "valid_position_not_set", "wrong_position", "go_searchmoves_unanswered":
			continue
		}
		keep = append(keep, v)
	}
	res.Violations = keep
}

func pick(c bool, a, b string) string {
	if c {
		return a
	}
	return b
}

// panicSite extracts a stable identifier (innermost engine function) from a panic report.
func panicSite(msg string) string {
	m := rePanicSite.FindStringSubmatch(msg)
	if m == nil {
		return "unknown"
	}
	return m[1]
}

var rePanicSite = regexp.MustCompile(`FrankyGo/internal/([\w/]+\.(?:\(\*?\w+\)\.)?\w+)`)

// pvUnplayable returns a description of the first unplayable move of the pv
// in an info line, or "".
func pvUnplayable(root *rules.Pos, info string) string {
	i := strings.Index(info, " pv")
	if i < 0 {
		return ""
	}
	moves := strings.Fields(info[i+3:])
	p := root.Clone()
	for k, m := range moves {
		if err := p.Play(m); err != nil {
			return fmt.Sprintf("pv move %d (%s) illegal in %s", k+1, m, p.Fen())
		}
	}
	return ""
}

// mateScoreWithoutMate: an iteration that reports "score mate n" together with
// a principal variation of exactly the announced length has seen a checkmate
// at the end of that line - the rules model must agree (a check of C07 that
// does not depend on the terminal-node hook).
func mateScoreWithoutMate(root *rules.Pos, info string) string {
	f := strings.Fields(info)
	n, have := 0, false
	var pv []string
	for i := 0; i < len(f); i++ {
		if f[i] == "score" && i+2 < len(f) && f[i+1] == "mate" {
			if v, err := strconv.Atoi(f[i+2]); err == nil {
				n, have = v, true
			}
		}
		if f[i] == "pv" {
			pv = f[i+1:]
			break
		}
	}
	if !have || n == 0 {
		return ""
	}
	want := 2*n - 1
	if n < 0 {
		want = -2 * n
	}
	if len(pv) != want {
		return ""
	}
	p := root.Clone()
	for _, m := range pv {
		if p.Play(m) != nil {
			return "" // decided by the pv legality check
		}
	}
	if len(p.LegalMoves()) == 0 && p.InCheck() {
		return ""
	}
	return fmt.Sprintf("the pv ends in %s which is not checkmate (%d legal moves, in check %v)", p.Fen(), len(p.LegalMoves()), p.InCheck())
}

package verifsim

import (
	"fmt"
	"sort"
	"strconv"
	"strings"
)

// checkDamagedSetOption: a damaged setoption line is reported or ignored - it
// changes nothing - unless some reading of it names an option and a valid
// value for it, in which case it may change exactly that one field to that
// value. Judged from the engine's own configuration print-outs placed
// directly before and after the damaged line.
func checkDamagedSetOption(sc *Scenario, out *UciRunOut, stepOfIn map[int]int, res *RunResult) {
	hist := out.Hist
	// indices of in-lines in hist, with their ordinal
	var ins []int
	for i := range hist {
		if hist[i].In {
			ins = append(ins, i)
		}
	}
	snapAfter := func(k int) map[string]string {
		// print-out lines following the in-line at hist index k
		var lines []string
		for j := k + 1; j < len(hist) && !hist[j].In; j++ {
			lines = append(lines, hist[j].Text)
		}
		s := configSnapshot(lines)
		if len(s) <= 10 {
			return nil
		}
		return s
	}
	for ord, k := range ins {
		st, known := stepOfIn[ord]
		if !known || sc.Steps[st].Op != "damaged" || !strings.HasPrefix(sc.Steps[st].Orig, "setoption name ") {
			continue
		}
		if ord == 0 || ord+1 >= len(ins) {
			continue
		}
		pk, nk := ins[ord-1], ins[ord+1]
		if strings.TrimSpace(hist[pk].Text) != "setoption name Print Config" || strings.TrimSpace(hist[nk].Text) != "setoption name Print Config" {
			continue
		}
		before, after := snapAfter(pk), snapAfter(nk)
		if before == nil || after == nil {
			continue
		}
		res.count("damaged_setoption_audits", 1)
		var changed []string
		for f, v := range after {
			if before[f] != v {
				changed = append(changed, f)
			}
		}
		sort.Strings(changed)
		if len(changed) == 0 {
			continue
		}
		line := hist[k].Text
		// a lenient reading of the damaged line: name tokens up to "value", then the value
		name, value, ok := parseSetOption(strings.Join(strings.Fields(line), " "))
		valid := false
		if ok {
			for _, o := range EngineOptions {
				if !strings.EqualFold(o.Name, name) {
					continue
				}
				switch o.Type {
				case "check":
					_, err := strconv.ParseBool(value)
					valid = err == nil
				case "spin":
					_, err := strconv.Atoi(value)
					valid = err == nil
				}
			}
		}
		if len(changed) == 1 && valid {
			v := after[changed[0]]
			if strings.EqualFold(v, value) {
				continue
			}
			if b, err := strconv.ParseBool(value); err == nil && strings.EqualFold(v, strconv.FormatBool(b)) {
				continue
			}
			if n, err := strconv.Atoi(value); err == nil && v == strconv.Itoa(n) {
				continue
			}
		}
		res.addViolation("C16", "option_changed_by_damaged_line", fmt.Sprintf("damaged line %q changed %v (e.g. %s: %q -> %q) although it names no option with a valid value", clip(line, 200), changed, changed[0], before[changed[0]], after[changed[0]]))
	}
}

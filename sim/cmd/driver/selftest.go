package main

import (
	"fmt"
	"os"
	"os/exec"
	"path/filepath"
	"sync"

	sim "github.com/frankkopp/FrankyGo/verifsim"
)

// selftest proves determinism on a sample: every (property, seed) is run
// several times in separate processes at GOMAXPROCS 1, 4 and 16 and the
// complete event-trace fingerprints must agree. A divergence is a harness
// failure (exit 2), never a violation.
func selftest() int {
	bin := build(false)
	props := []string{"C12", "C05", "C13", "C07", "C14", "C16", "C19", "C20", "C11"}
	if v := os.Getenv("VERIF_SELFTEST_PROPS"); v != "" {
		props = splitComma(v)
	}
	seeds := int(envInt("VERIF_SELFTEST_SEEDS", 6))
	reps := int(envInt("VERIF_SELFTEST_REPS", 3))
	cpus := []string{"1", "4", "16"}
	type job struct {
		prop string
		cpu  string
		rep  int
	}
	var jobs []job
	for _, p := range props {
		if _, ok := plans[p]; !ok {
			continue
		}
		for _, c := range cpus {
			for r := 0; r < reps; r++ {
				jobs = append(jobs, job{p, c, r})
			}
		}
	}
	type key struct {
		prop string
		seed uint64
	}
	var mu sync.Mutex
	hashes := map[key]map[string]int{}
	fails := 0
	var wg sync.WaitGroup
	sem := make(chan struct{}, nproc)
	for ji, j := range jobs {
		wg.Add(1)
		sem <- struct{}{}
		go func(ji int, j job) {
			defer wg.Done()
			defer func() { <-sem }()
			outPath := filepath.Join(workDir, "run", fmt.Sprintf("self-%d.jsonl", ji))
			_ = os.Remove(outPath)
			cmd := exec.Command(bin, "-test.run", "^TestWorker$", "-test.cpu", j.cpu, "-test.timeout", "1h")
			cmd.Dir = filepath.Join(workDir, "cwd")
			cmd.Env = append(os.Environ(), "VERIF_OUT="+outPath, "VERIF_PROP="+j.prop,
				"VERIF_FROM=900000001", fmt.Sprintf("VERIF_COUNT=%d", seeds), "GOMEMLIMIT=3GiB")
			err := cmd.Run()
			rs := readResults(outPath)
			_ = os.Remove(outPath)
			mu.Lock()
			defer mu.Unlock()
			if err != nil && len(rs) < seeds {
				// crashes are legitimate outcomes but must be the same everywhere
				rs = append(rs, &sim.RunResult{Seed: 900000001 + uint64(len(rs)), TraceHash: "crash"})
			}
			for _, r := range rs {
				k := key{j.prop, r.Seed}
				if hashes[k] == nil {
					hashes[k] = map[string]int{}
				}
				h := r.TraceHash
				if r.Harness != "" {
					h = "harness:" + r.Harness
				}
				hashes[k][h]++
			}
		}(ji, j)
	}
	wg.Wait()
	total := 0
	for k, hs := range hashes {
		total++
		if len(hs) != 1 {
			fails++
			fmt.Printf("DETERMINISM-FAILURE: %s seed %d produced %d different traces: %v\n", k.prop, k.seed, len(hs), hs)
		}
	}
	fmt.Printf("selftest: %d (property,seed) pairs x %d processes each (GOMAXPROCS 1/4/16 x %d): %d divergent\n", total, len(cpus)*reps, reps, fails)
	if fails > 0 || total == 0 {
		return 2
	}
	return 0
}

func splitComma(s string) []string {
	var out []string
	cur := ""
	for _, c := range s {
		if c == ',' {
			if cur != "" {
				out = append(out, cur)
			}
			cur = ""
		} else {
			cur += string(c)
		}
	}
	if cur != "" {
		out = append(out, cur)
	}
	return out
}

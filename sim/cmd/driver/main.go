// Command driver builds the simulation harness against the current working
// tree of the repository, fans seeds out to worker processes, confirms and
// minimises violations, matches them against the known-findings file and
// writes the evidence file.
//
//	driver check <PROP> <quick|thorough>
//	driver replay <file>
//	driver selftest            (determinism self-test + rules model perft)
//	driver build
//
// Exit codes: 0 = property held on everything explored (known findings are
// printed as KNOWN-FINDING lines); 1 = confirmed, replayable violation not in
// the known-findings file (VIOLATION line printed); 2 = build trouble,
// watchdog, non-reproducible failure, determinism failure.
package main

import (
	"bufio"
	"bytes"
	"encoding/json"
	"fmt"
	"os"
	"os/exec"
	"path/filepath"
	"regexp"
	"sort"
	"strconv"
	"strings"
	"sync"
	"time"

	sim "github.com/frankkopp/FrankyGo/verifsim"
)

var (
	verifDir = envOr("VERIF_DIR", "/verif")
	repoDir  = envOr("VERIF_REPO", "/repo")
	workDir  string
	goBin    = envOr("VERIF_GO", "go1.26.8")
	nproc    = int(envInt("VERIF_PROCS", 16))
)

func envOr(k, d string) string {
	if v := os.Getenv(k); v != "" {
		return v
	}
	return d
}

func envInt(k string, d int64) int64 {
	if v := os.Getenv(k); v != "" {
		if n, err := strconv.ParseInt(v, 10, 64); err == nil {
			return n
		}
	}
	return d
}

func fatal2(format string, a ...interface{}) {
	fmt.Printf("HARNESS-ERROR: "+format+"\n", a...)
	os.Exit(2)
}

// ---------------------------------------------------------------------------
// plans
// ---------------------------------------------------------------------------

// Plan says how much to run per property and tier.
type Plan struct {
	Level      string
	Runs       [2]int // quick, thorough (plain build)
	RaceRuns   [2]int // quick, thorough (-race build)
	Batch      int
	DesignRef  string
	Rule       string
	Real, Stub []string
	Assume     []string
}

var realEngine = []string{"uci.UciHandler.Loop and all command handlers", "search.Search (lifecycle, iterative deepening, alpha-beta, qsearch, timers, busy wait)", "transpositiontable", "movegen", "position", "evaluator", "history", "logging (muted sinks)"}
var stubEnv = []string{"GUI / match manager (harness)", "stdin/stdout (in-memory line transport)", "wall clock (testing/synctest fake clock)", "goroutine scheduling (tie-free fake-time slots decide every wake-up)"}

var plans = map[string]Plan{
	"C12": {Level: "exploration", Runs: [2]int{1600, 150000}, RaceRuns: [2]int{0, 0}, Batch: 50, DesignRef: "5/C12",
		Rule: "one evaluation = one simulated UCI session (3-8 searches, seeded commands and fake-time gaps, option swarm, stalls). distinct = distinct interleaving signatures (hash of the sequence of (command kind, search phase at arrival in {idle,<5ms after end,iteration 1,2-3,deeper,busy wait}, live timer count)); non-trivial = at least one fault kind fired in the run",
		Real: realEngine, Stub: stubEnv,
		Assume: []string{"rules model (independent chess implementation, validated against published perft counts) is correct", "statement-level interleavings inside one controller call are not scheduled (slot atomicity)"}},
	"C05": {Level: "exploration", Runs: [2]int{1600, 150000}, Batch: 50, DesignRef: "5/C05",
		Rule: "one evaluation = one simulated UCI session with 5-10 searches on one engine (warm hash/history tables), all limit modes, stop/time-out at seeded fake instants, option + configuration swarm. distinct = distinct interleaving signatures; non-trivial = at least one fault kind fired",
		Real: realEngine, Stub: stubEnv,
		Assume: []string{"rules model is correct", "roots that are already draws by the fifty-move rule or third occurrence are outside the quantifier (narrow reading)"}},
	"C13": {Level: "exploration", Runs: [2]int{1200, 60000}, Batch: 50, DesignRef: "5/C13",
		Rule: "one evaluation = one simulated session or clocked game on the fake clock; distinct = distinct interleaving signatures; non-trivial = a time-out fired mid-search or a limit oracle had a sample",
		Real: realEngine, Stub: stubEnv,
		Assume: []string{"scheduling allowance 10 fake ms; stop-check cost <= 10us in deadline runs; no stalls"}},
	"C14": {Level: "exploration", Runs: [2]int{1600, 100000}, RaceRuns: [2]int{160, 8000}, Batch: 50, DesignRef: "5/C14",
		Rule: "one evaluation = one simulated lifecycle-call sequence (3 of 4 at Search API level with the harness as UCI driver, 1 of 4 through UCI text), run on the plain build and (a subset) on the -race build inside the simulator; distinct = distinct interleaving signatures (call kind, search phase at arrival, live timer count); non-trivial = at least one fault kind fired (call at a 'wrong' time, cancellation of a running search, time-out mid-search, start within 5 ms of a result, stall)",
		Real: realEngine, Stub: append([]string{"API controller (harness goroutine issuing real lifecycle calls)", "UCI driver interface (harness records results)"}, stubEnv...),
		Assume: []string{"race detection is happens-before based (Go race detector) on the simulated schedule; harness code on engine goroutines is //go:norace and free of synchronisation", "slot atomicity of one controller call"}},
	"C16": {Level: "exploration", Runs: [2]int{1600, 150000}, Batch: 50, DesignRef: "5/C16",
		Rule: "one evaluation = one simulated UCI session in which each command line is passed through intact or damaged in flight (truncate/drop/duplicate/swap tokens, numeric extremes, junk tokens, whitespace and control bytes, blank and over-long lines, corrupted FEN payloads, unreadable moves), followed by isready probes and a valid recovery position/go; plus direct FEN parsing of every generated payload. distinct = distinct (interleaving signature); non-trivial = at least one damaged line was delivered",
		Real: realEngine, Stub: stubEnv,
		Assume: []string{"after a position command that is valid up to an illegal move either the previous position or start + legal prefix is accepted", "Hash values that would allocate gigabytes are not generated (sandbox has no memory limit)"}},
	"C11": {Level: "exploration", Runs: [2]int{4000, 1000000}, RaceRuns: [2]int{200, 10000}, Batch: 250, DesignRef: "5/C11",
		Rule: "one evaluation = one seeded operation history (10-200 Put/Probe/GetEntry/AgeEntries/Clear/Resize operations, keys built to collide in the index bits at every capacity, values over the whole storable range incl. mate scores, MoveNone, depths with ties) executed by two actor goroutines against the real table (real ageing workers) and checked operation by operation against a reference store; distinct = distinct hashes of the abstract model state sequence; non-trivial = at least one index collision between different keys occurred",
		Real: []string{"transpositiontable.TtTable (Put, Probe, GetEntry, AgeEntries with its 32 worker goroutines, Clear, Resize, Len, Hashfull, String)"}, Stub: []string{"search and controller (harness actor goroutines, hand-over like the engine's lifecycle lock)"},
		Assume: []string{"key 0 (the table's own empty-slot marker) and size 0 are not generated", "equal-depth replacement after ageing and probing: either outcome accepted (the statement does not say how probes interact with ageing)"}},
	"C19": {Level: "exploration", Runs: [2]int{800, 50000}, RaceRuns: [2]int{60, 3000}, Batch: 25, DesignRef: "5/C19",
		Rule: "one evaluation = one seeded game collection (shared prefixes, transpositions, duplicate games, illegal moves mid-line, promotions) written as Simple, SAN and PGN (tags, comments, NAGs, nested variations, results, wrapped lines) and built 2-4 times per format under seeded schedules that decide the order of every acquisition of the book lock; distinct = distinct lock-grant orders (hash); non-trivial = more than one build",
		Real: []string{"openingbook.Book (Initialize, file reading, format processing, per-line worker goroutines, addToBook under the book lock)", "movegen (move parsing from UCI/SAN)", "position"}, Stub: []string{"goroutine scheduling of the build workers (every lock acquisition is a seeded fake-time slot)", "book source files (generated by the harness from rules-model games)"},
		Assume: []string{"position identity uses the engine's own position key (DoMove/Zobrist are the trusted base here; C02/C04 are not claimed)", "which parent links to a transposed position is schedule dependent and is not compared"}},
	"C20": {Level: "fault_enumeration", Runs: [2]int{300, 8000}, Batch: 20, DesignRef: "5/C20",
		Rule: "one evaluation = one seeded book: built from source, saved to its cache, then re-initialised from every damaged state of the cache file (every byte prefix of the written file for small books, bit flips, garbage, empty, missing, directory in place, appended bytes, zeroed ranges), twice per state in the same process; distinct = distinct (cache length, damage kind, offset) sets; non-trivial = at least one damaged state was installed",
		Real: []string{"openingbook.Book Initialize / loadFromCache / saveToCache with encoding/gob", "real files in a per-run temporary directory"}, Stub: []string{"crash while writing the cache (simulated by installing every prefix of the complete file)"},
		Assume: []string{"a damaged cache that still decodes (e.g. a flipped counter bit) is outside the statement: only termination/no panic is required there", "no file-system seam exists in the engine, so I/O errors during read/write cannot be injected; the states a crash leaves behind are enumerated instead", "deadlock = book lock held continuously for 3 s of wall time while Initialize has not returned"}},
	"C07": {Level: "exploration", Runs: [2]int{1200, 120000}, Batch: 50, DesignRef: "5/C07",
		Rule: "one evaluation = one simulated session with the terminal-node monitor on; distinct = distinct (interleaving signature); non-trivial = at least one mate/stalemate classification was checked against the rules model",
		Real: realEngine, Stub: stubEnv,
		Assume: []string{"rules model is correct"}},
}

// requiredReach lists, per property, probes / fault kinds / oracle sample
// counters that a thorough run must have hit at least once.
var requiredReach = map[string][]string{
	"C05": {"F1_cancel_running", "F2_timeout_mid_search", "F3_stall", "F3_setup_stall", "stop_in_iteration_1", "excluded_root", "ponder_reported", "pv_lines_checked", "position_checks", "timer_alive_at_next_go"},
	"C07": {"terminal_distinct_checked", "F1_cancel_running", "terminal_root_checks"},
	"C11": {"F12_index_collision", "F12_age", "F12_resize", "F12_clear", "collision_deeper", "collision_shallower", "collision_equal_fresh", "collision_equal_aged", "hit_checked", "put_update"},
	"C12": {"F1_cancel_running", "F2_timeout_mid_search", "F4_burst", "F4_go_within_5ms_of_result", "F5_ponderhit_running", "stop_in_iteration_1", "stop_in_busy_wait", "ponderhit_after_internal_completion", "timer_alive_at_next_go", "isready_mid_search", "newgame_vs_fresh_compared", "setoption_audits", "position_checks", "readyok"},
	"C13": {"F2_timeout_mid_search", "movetime_expired", "time_control_refill", "first_search_after_book", "book_move_played", "observed_samples", "allotted_samples", "depth_samples", "searchmoves_samples", "budget_sequence_steps"},
	"C14": {"F6_start_while_running", "rejected_start_returned", "F6_stop_when_idle", "F6_resize_while_searching", "F6_clearhash_while_searching", "F6_newgame_while_searching", "F5_ponderhit_running", "timer_alive_at_next_start", "ponderhit_after_internal_completion", "is_searching_checks", "stops_of_running_search", "terminal_root_checks"},
	"C16": {"F7_damaged_line", "fen_strings_parsed", "fen_rejected", "fen_accepted", "position_checks", "readyok"},
	"C19": {"F11_schedule_permutation", "F10_bad_move_in_line", "simple_with_promotion", "builds", "lock_grants"},
	"C20": {"cache_cases_undecodable", "exhaustive_prefix_books", "F9_truncate", "F9_bitflip", "F9_garbage", "F9_empty", "F9_missing", "F9_directory", "F9_truncate_at_message_boundary"},
}

// ---------------------------------------------------------------------------
// build
// ---------------------------------------------------------------------------

func simDir() string { return filepath.Join(verifDir, "sim") }

func goEnv() []string {
	env := os.Environ()
	env = append(env, "GOFLAGS=-mod=mod", "GOPROXY=off", "GOSUMDB=off", "GOTOOLCHAIN=local", "CGO_ENABLED=1")
	return env
}

func writeGoMod() string {
	tmpl, err := os.ReadFile(filepath.Join(simDir(), "go.mod.tmpl"))
	if err != nil {
		fatal2("read go.mod.tmpl: %v", err)
	}
	mod := strings.ReplaceAll(string(tmpl), "@REPO@", repoDir)
	modPath := filepath.Join(workDir, "go.mod")
	if old, err := os.ReadFile(modPath); err != nil || string(old) != mod {
		if err := os.WriteFile(modPath, []byte(mod), 0o644); err != nil {
			fatal2("write go.mod: %v", err)
		}
	}
	sumPath := filepath.Join(workDir, "go.sum")
	if _, err := os.Stat(sumPath); err != nil {
		b, _ := os.ReadFile(filepath.Join(repoDir, "go.sum"))
		_ = os.WriteFile(sumPath, b, 0o644)
	}
	return modPath
}

func build(race bool) string {
	modPath := writeGoMod()
	out := filepath.Join(workDir, "sim.test")
	args := []string{"test", "-modfile=" + modPath, "-tags", "verif", "-c", "-o", out}
	if race {
		out = filepath.Join(workDir, "sim.race.test")
		args = []string{"test", "-modfile=" + modPath, "-tags", "verif", "-race", "-c", "-o", out}
	}
	args = append(args, ".")
	cmd := exec.Command(goBin, args...)
	cmd.Dir = simDir()
	cmd.Env = goEnv()
	b, err := cmd.CombinedOutput()
	if err != nil {
		fmt.Println(string(b))
		fatal2("build failed (%v)", err)
	}
	return out
}

// ---------------------------------------------------------------------------
// workers
// ---------------------------------------------------------------------------

type batch struct {
	prop  string
	from  uint64
	count uint64
	race  bool
}

type crashInfo struct {
	Seed   uint64
	Class  string
	Detail string
	Sc     *sim.Scenario // set when the crashing scenario did not come from a seed
}

var reSeedStart = regexp.MustCompile(`### seed (\d+) start`)

// runBatch runs one worker process; on a crash it records the crashing seed
// and continues with the rest of the range in a new process.
func runBatch(bin string, b batch, idx int, extraEnv []string) ([]*sim.RunResult, []crashInfo, []string) {
	var results []*sim.RunResult
	var crashes []crashInfo
	var raceReports []string
	from, end := b.from, b.from+b.count
	attempt := 0
	for from < end {
		attempt++
		outPath := filepath.Join(workDir, "run", fmt.Sprintf("%s-%d-%d.jsonl", b.prop, idx, attempt))
		_ = os.Remove(outPath)
		cmd := exec.Command(bin, "-test.run", "^TestWorker$", "-test.cpu", "1", "-test.timeout", "6h")
		cmd.Dir = filepath.Join(workDir, "cwd")
		cmd.Env = append(os.Environ(), "VERIF_OUT="+outPath, "VERIF_PROP="+b.prop,
			fmt.Sprintf("VERIF_FROM=%d", from), fmt.Sprintf("VERIF_COUNT=%d", end-from),
			"GOMEMLIMIT=3GiB", "GOMAXPROCS=2")
		if b.race {
			cmd.Env = append(cmd.Env, "GORACE=halt_on_error=0 suppress_equal_stacks=0 suppress_equal_addresses=0 history_size=2")
		}
		cmd.Env = append(cmd.Env, extraEnv...)
		var stderr bytes.Buffer
		cmd.Stderr = &limitedWriter{w: &stderr, max: 64 << 20}
		cmd.Stdout = nil
		done := make(chan error, 1)
		if err := cmd.Start(); err != nil {
			fatal2("start worker: %v", err)
		}
		go func() { done <- cmd.Wait() }()
		var err error
		wallLimit := time.Duration(envInt("VERIF_BATCH_WALL_S", 1800)) * time.Second
		select {
		case err = <-done:
		case <-time.After(wallLimit):
			_ = cmd.Process.Kill()
			<-done
			err = fmt.Errorf("wall-clock watchdog")
		}
		rs := readResults(outPath)
		results = append(results, rs...)
		if b.race {
			raceReports = append(raceReports, splitRaceReports(stderr.String())...)
			attachRaces(stderr.String(), rs, b.prop)
		}
		last := from - 1
		if len(rs) > 0 {
			last = rs[len(rs)-1].Seed
		}
		if err == nil || last+1 >= end {
			// all seeds reported (a race build exits non-zero after reports)
			break
		}
		// crashed or killed: which seed was running?
		crashed := last + 1
		if m := reSeedStart.FindAllStringSubmatch(stderr.String(), -1); len(m) > 0 {
			if n, e := strconv.ParseUint(m[len(m)-1][1], 10, 64); e == nil && n > last {
				crashed = n
			}
		}
		if ee, ok := err.(*exec.ExitError); ok && ee.ExitCode() == 7 {
			// worker asked for a restart after reporting its last seed
			from = last + 1
			continue
		}
		class, detail := classifyCrash(stderr.String(), err)
		crashes = append(crashes, crashInfo{Seed: crashed, Class: class, Detail: detail})
		from = crashed + 1
	}
	return results, crashes, raceReports
}

type limitedWriter struct {
	w   *bytes.Buffer
	max int
}

func (l *limitedWriter) Write(p []byte) (int, error) {
	if l.w.Len() < l.max {
		l.w.Write(p)
	}
	return len(p), nil
}

func readResults(path string) []*sim.RunResult {
	f, err := os.Open(path)
	if err != nil {
		return nil
	}
	defer f.Close()
	var out []*sim.RunResult
	sc := bufio.NewScanner(f)
	sc.Buffer(make([]byte, 1<<20), 256<<20)
	for sc.Scan() {
		var r sim.RunResult
		if json.Unmarshal(sc.Bytes(), &r) == nil {
			out = append(out, &r)
		}
	}
	return out
}

var reEngineFrame = regexp.MustCompile(`github\.com/frankkopp/FrankyGo/internal/([^\s(]+(?:\([^)]*\))?[^\s(]*)\(`)

// classifyCrash turns a worker's stderr into a stable class.
func classifyCrash(stderr string, err error) (string, string) {
	if strings.Contains(err.Error(), "watchdog") {
		return "wall_watchdog", "worker exceeded the wall-clock limit (CPU spin invisible to the bubble?)"
	}
	i := strings.Index(stderr, "panic: ")
	kind := "panic"
	if j := strings.Index(stderr, "fatal error: "); j >= 0 && (i < 0 || j < i) {
		i, kind = j, "fatal"
	}
	if i < 0 {
		tail := stderr
		if len(tail) > 600 {
			tail = tail[len(tail)-600:]
		}
		return "worker_died", err.Error() + ": " + tail
	}
	rest := stderr[i:]
	first := rest
	if k := strings.Index(first, "\n"); k >= 0 {
		first = first[:k]
	}
	site := "unknown"
	// the first goroutine stack after the message is the crashing one
	if m := reEngineFrame.FindStringSubmatch(rest); m != nil {
		site = m[1]
	}
	if len(rest) > 1500 {
		rest = rest[:1500]
	}
	return "crash:" + kind + ":" + site, first + " | " + strings.ReplaceAll(rest, "\n", " / ")
}

var reRaceHdr = regexp.MustCompile(`^(Write|Read|Previous write|Previous read|Atomic write|Atomic read|Previous atomic write|Previous atomic read) at `)

// normaliseRace turns one race report into a stable class: the unordered
// pair of (access kind, innermost engine function), line numbers dropped.
func normaliseRace(rep string) (string, bool) {
	lines := strings.Split(rep, "\n")
	var parts []string
	harnessOnly := true
	for i := 0; i < len(lines); i++ {
		m := reRaceHdr.FindStringSubmatch(lines[i])
		if m == nil {
			continue
		}
		kind := "R"
		if strings.Contains(strings.ToLower(m[1]), "write") {
			kind = "W"
		}
		fn := ""
		top := ""
		for j := i + 1; j < len(lines) && strings.HasPrefix(lines[j], "  "); j++ {
			l := strings.TrimSpace(lines[j])
			if strings.HasPrefix(l, "/") || l == "" {
				continue
			}
			if top == "" {
				top = l
			}
			if k := strings.Index(l, "FrankyGo/internal/"); k >= 0 {
				fn = l[k+len("FrankyGo/internal/"):]
				if p := strings.LastIndex(fn, "("); p > 0 {
					fn = fn[:p]
				}
				break
			}
		}
		if fn == "" {
			fn = "?" + top
		} else {
			harnessOnly = false
		}
		parts = append(parts, kind+" "+fn)
	}
	sort.Strings(parts)
	return "race:" + strings.Join(parts, " | "), harnessOnly
}

// attachRaces parses a race-build worker's stderr and attaches the reports
// as violations to the run (seed) during which they were printed.
func attachRaces(stderr string, rs []*sim.RunResult, prop string) {
	bySeed := map[uint64]*sim.RunResult{}
	for _, r := range rs {
		bySeed[r.Seed] = r
	}
	idx := reSeedStart.FindAllStringSubmatchIndex(stderr, -1)
	for i, m := range idx {
		seed, _ := strconv.ParseUint(stderr[m[2]:m[3]], 10, 64)
		end := len(stderr)
		if i+1 < len(idx) {
			end = idx[i+1][0]
		}
		r := bySeed[seed]
		if r == nil {
			continue
		}
		for _, rep := range splitRaceReports(stderr[m[1]:end]) {
			cls, harness := normaliseRace(rep)
			if harness {
				r.Harness = "race report without engine frame: " + clip(rep, 400)
				continue
			}
			dup := false
			for _, v := range r.Violations {
				if v.Class == cls {
					dup = true
				}
			}
			if !dup {
				r.Violations = append(r.Violations, sim.Violation{Prop: prop, Class: cls, Detail: clip(strings.ReplaceAll(rep, "\n", " / "), 1500)})
			}
		}
	}
}

func splitRaceReports(stderr string) []string {
	var out []string
	parts := strings.Split(stderr, "==================\n")
	for _, p := range parts {
		if strings.HasPrefix(p, "WARNING: DATA RACE") {
			out = append(out, p)
		}
	}
	return out
}

// runAll fans batches out over nproc processes.
func runAll(bin string, batches []batch, extraEnv []string) ([]*sim.RunResult, []crashInfo, []string) {
	_ = os.MkdirAll(filepath.Join(workDir, "run"), 0o755)
	_ = os.MkdirAll(filepath.Join(workDir, "cwd"), 0o755)
	var mu sync.Mutex
	var all []*sim.RunResult
	var crashes []crashInfo
	var races []string
	ch := make(chan int)
	var wg sync.WaitGroup
	for w := 0; w < nproc; w++ {
		wg.Add(1)
		go func() {
			defer wg.Done()
			for i := range ch {
				rs, cs, rr := runBatch(bin, batches[i], i, extraEnv)
				mu.Lock()
				all = append(all, rs...)
				crashes = append(crashes, cs...)
				races = append(races, rr...)
				mu.Unlock()
			}
		}()
	}
	for i := range batches {
		ch <- i
	}
	close(ch)
	wg.Wait()
	sort.Slice(all, func(i, j int) bool { return all[i].Seed < all[j].Seed })
	return all, crashes, races
}

// replayOnce runs one scenario file in a fresh process.
func replayOnce(bin string, path string, tag string) (*sim.RunResult, *crashInfo) {
	outPath := filepath.Join(workDir, "run", "replay-"+tag+".jsonl")
	_ = os.Remove(outPath)
	cmd := exec.Command(bin, "-test.run", "^TestWorker$", "-test.cpu", "1", "-test.timeout", "1h")
	cmd.Dir = filepath.Join(workDir, "cwd")
	cmd.Env = append(os.Environ(), "VERIF_OUT="+outPath, "VERIF_REPLAY="+path, "GOMEMLIMIT=3GiB", "GOMAXPROCS=2")
	isRace := strings.HasSuffix(bin, ".race.test")
	if isRace {
		cmd.Env = append(cmd.Env, "GORACE=halt_on_error=0 suppress_equal_stacks=0 suppress_equal_addresses=0 history_size=2")
	}
	var stderr bytes.Buffer
	cmd.Stderr = &limitedWriter{w: &stderr, max: 8 << 20}
	done := make(chan error, 1)
	if err := cmd.Start(); err != nil {
		fatal2("start replay: %v", err)
	}
	go func() { done <- cmd.Wait() }()
	var err error
	select {
	case err = <-done:
	case <-time.After(time.Duration(envInt("VERIF_REPLAY_WALL_S", 300)) * time.Second):
		_ = cmd.Process.Kill()
		<-done
		err = fmt.Errorf("wall-clock watchdog")
	}
	rs := readResults(outPath)
	_ = os.Remove(outPath)
	if len(rs) > 0 {
		if isRace {
			attachRaces(stderr.String(), rs, rs[0].Prop)
		}
		return rs[0], nil
	}
	if err == nil {
		err = fmt.Errorf("no result")
	}
	class, detail := classifyCrash(stderr.String(), err)
	return nil, &crashInfo{Class: class, Detail: detail}
}

// classesOf returns the violation classes (prop:class) a replay produced.
func classesOf(r *sim.RunResult, c *crashInfo, prop string) map[string]string {
	out := map[string]string{}
	if c != nil {
		out[prop+":"+c.Class] = c.Detail
		return out
	}
	for _, v := range r.Violations {
		out[v.Prop+":"+v.Class] = v.Detail
	}
	return out
}

// ---------------------------------------------------------------------------
// minimisation: delta debugging over steps, then numeric simplification
// ---------------------------------------------------------------------------

type minimiser struct {
	bin   string
	key   string // prop:class to preserve
	prop  string
	tries int
	mu    sync.Mutex
	seq   int
}

func (m *minimiser) test(sc *sim.Scenario) bool {
	m.mu.Lock()
	m.seq++
	tag := fmt.Sprintf("min-%d-%d", os.Getpid(), m.seq)
	m.tries++
	m.mu.Unlock()
	p := filepath.Join(workDir, "run", tag+".json")
	if err := sc.Save(p); err != nil {
		return false
	}
	defer os.Remove(p)
	r, c := replayOnce(m.bin, p, tag)
	if r != nil && r.Harness != "" {
		return false
	}
	_, ok := classesOf(r, c, m.prop)[m.key]
	return ok
}

// goAwaited reports whether every go of a scripted session is followed by a
// wait for its bestmove before the next go is sent.
func goAwaited(steps []sim.Step) bool {
	pending := false
	for _, st := range steps {
		switch {
		case st.Op == "send" && strings.HasPrefix(strings.TrimSpace(st.Line), "go"):
			if pending {
				return false
			}
			pending = true
		case st.Op == "wait_best" || st.Op == "fresh_engine":
			pending = false
		}
	}
	return true
}

// testMany evaluates candidates in parallel and returns the index of the
// first (lowest index) that still fails, or -1.
func (m *minimiser) testMany(cands []*sim.Scenario) int {
	res := make([]bool, len(cands))
	var wg sync.WaitGroup
	sem := make(chan struct{}, nproc)
	for i := range cands {
		wg.Add(1)
		sem <- struct{}{}
		go func(i int) {
			defer wg.Done()
			res[i] = m.test(cands[i])
			<-sem
		}(i)
	}
	wg.Wait()
	for i, ok := range res {
		if ok {
			return i
		}
	}
	return -1
}

func (m *minimiser) minimise(sc *sim.Scenario, budget time.Duration) *sim.Scenario {
	deadline := time.Now().Add(budget)
	cur := sc.Clone()
	// 1. ddmin over steps
	if len(cur.Steps) > 0 {
		keepValid := cur.Kind == "uci" && goAwaited(cur.Steps)
		n := 2
		for len(cur.Steps) >= 2 && time.Now().Before(deadline) {
			chunk := (len(cur.Steps) + n - 1) / n
			var cands []*sim.Scenario
			for s := 0; s < len(cur.Steps); s += chunk {
				e := s + chunk
				if e > len(cur.Steps) {
					e = len(cur.Steps)
				}
				c := cur.Clone()
				c.Steps = append(append([]sim.Step{}, cur.Steps[:s]...), cur.Steps[e:]...)
				if keepValid && !goAwaited(c.Steps) {
					// dropping these steps would send a go while the previous one is
					// still unanswered: no longer a protocol-valid session
					continue
				}
				cands = append(cands, c)
			}
			if len(cands) == 0 {
				if chunk == 1 {
					break
				}
				n *= 2
				if n > len(cur.Steps) {
					n = len(cur.Steps)
				}
				continue
			}
			if i := m.testMany(cands); i >= 0 {
				cur = cands[i]
				if n > 2 {
					n--
				}
				continue
			}
			if chunk == 1 {
				break
			}
			n *= 2
			if n > len(cur.Steps) {
				n = len(cur.Steps)
			}
		}
	}
	// 1b. book scenarios: ddmin over the games (adversity entries follow their game)
	if cur.Book != nil && len(cur.Book.Games) > 1 {
		without := func(sc *sim.Scenario, s, e int) *sim.Scenario {
			c := sc.Clone()
			c.Book.Games = append(append([][]string{}, sc.Book.Games[:s]...), sc.Book.Games[e:]...)
			c.Book.Bad = nil
			for _, b := range sc.Book.Bad {
				switch {
				case b.Game < s:
					c.Book.Bad = append(c.Book.Bad, b)
				case b.Game >= e:
					b.Game -= e - s
					c.Book.Bad = append(c.Book.Bad, b)
				}
			}
			return c
		}
		n := 2
		for len(cur.Book.Games) >= 2 && time.Now().Before(deadline) {
			chunk := (len(cur.Book.Games) + n - 1) / n
			var cands []*sim.Scenario
			for s := 0; s < len(cur.Book.Games); s += chunk {
				e := s + chunk
				if e > len(cur.Book.Games) {
					e = len(cur.Book.Games)
				}
				cands = append(cands, without(cur, s, e))
			}
			if i := m.testMany(cands); i >= 0 {
				cur = cands[i]
				if n > 2 {
					n--
				}
				continue
			}
			if chunk == 1 {
				break
			}
			n *= 2
			if n > len(cur.Book.Games) {
				n = len(cur.Book.Games)
			}
		}
	}
	// 2. simplifications, each kept only if the same class persists
	try := func(f func(c *sim.Scenario) bool) {
		if !time.Now().Before(deadline) {
			return
		}
		c := cur.Clone()
		if f(c) && m.test(c) {
			cur = c
		}
	}
	try(func(c *sim.Scenario) bool { ch := len(c.Cost.Stalls) > 0; c.Cost.Stalls = nil; return ch })
	if cur.Game != nil {
		// simulated games: fewer plies, no opening, no book, symmetric clocks
		for cur.Game.Plies > 1 && time.Now().Before(deadline) {
			c := cur.Clone()
			c.Game.Plies = cur.Game.Plies / 2
			if m.test(c) {
				cur = c
				continue
			}
			c = cur.Clone()
			c.Game.Plies = cur.Game.Plies - 1
			if m.test(c) {
				cur = c
				continue
			}
			break
		}
		try(func(c *sim.Scenario) bool { ch := len(c.Game.Opening) > 0; c.Game.Opening = nil; return ch })
		try(func(c *sim.Scenario) bool { ch := c.Game.UseBook; c.Game.UseBook = false; return ch })
		try(func(c *sim.Scenario) bool { ch := c.Game.GuiLagUs > 1; c.Game.GuiLagUs = 1; return ch })
		try(func(c *sim.Scenario) bool {
			ch := c.Game.BTimeMs != c.Game.WTimeMs
			c.Game.BTimeMs = c.Game.WTimeMs
			return ch
		})
	}
	if cur.Book != nil {
		try(func(c *sim.Scenario) bool { ch := len(c.Book.Bad) > 0; c.Book.Bad = nil; return ch })
		try(func(c *sim.Scenario) bool {
			ch := len(c.Book.SchedSeeds) > 1
			if ch {
				c.Book.SchedSeeds = c.Book.SchedSeeds[:1]
			}
			return ch
		})
		try(func(c *sim.Scenario) bool { ch := c.Book.AllPrefixes; c.Book.AllPrefixes = false; return ch })
		for len(cur.Book.Damage) > 1 && time.Now().Before(deadline) {
			// keep the last or the first half of the damage list
			h := len(cur.Book.Damage) / 2
			a, b := cur.Clone(), cur.Clone()
			a.Book.Damage = a.Book.Damage[:h]
			b.Book.Damage = b.Book.Damage[h:]
			if m.test(a) {
				cur = a
			} else if m.test(b) {
				cur = b
			} else {
				break
			}
		}
		for gi := range cur.Book.Games {
			gi := gi
			for len(cur.Book.Games[gi]) > 1 && time.Now().Before(deadline) {
				c := cur.Clone()
				c.Book.Games[gi] = c.Book.Games[gi][:len(c.Book.Games[gi])/2]
				keep := true
				for _, b := range c.Book.Bad {
					if b.Game == gi && b.At > len(c.Book.Games[gi]) {
						keep = false
					}
				}
				if keep && m.test(c) {
					cur = c
				} else {
					break
				}
			}
		}
	}
	try(func(c *sim.Scenario) bool { ch := c.Config != nil; c.Config = nil; return ch })
	try(func(c *sim.Scenario) bool { ch := c.Cost.JitterNs != 0; c.Cost.JitterNs = 0; return ch })
	try(func(c *sim.Scenario) bool { ch := c.Cost.Every != 1; c.Cost.Every = 1; return ch })
	for i := range cur.Steps {
		i := i
		try(func(c *sim.Scenario) bool {
			if c.Steps[i].GapUs <= 1 {
				return false
			}
			c.Steps[i].GapUs = 1
			return true
		})
		try(func(c *sim.Scenario) bool {
			// drop the move list of a position command
			l := c.Steps[i].Line
			if k := strings.Index(l, " moves "); k > 0 && strings.HasPrefix(l, "position") {
				c.Steps[i].Line = l[:k]
				return true
			}
			return false
		})
	}
	return cur
}

// ---------------------------------------------------------------------------
// known findings
// ---------------------------------------------------------------------------

type knownFinding struct {
	Property string `json:"property"`
	Class    string `json:"class"` // exact class, or prefix when it ends in '*'
	What     string `json:"what"`
	Replay   string `json:"replay,omitempty"`
}

type knownFile struct {
	Findings []knownFinding `json:"findings"`
	Fixed    []string       `json:"fixed"`
}

func loadKnown() knownFile {
	var k knownFile
	b, err := os.ReadFile(filepath.Join(verifDir, "known_findings.json"))
	if err != nil {
		return k
	}
	if err := json.Unmarshal(b, &k); err != nil {
		fatal2("known_findings.json: %v", err)
	}
	return k
}

func (k *knownFile) match(prop, class string) *knownFinding {
	for i := range k.Findings {
		f := &k.Findings[i]
		if f.Property != prop {
			continue
		}
		if f.Class == class || (strings.HasSuffix(f.Class, "*") && strings.HasPrefix(class, strings.TrimSuffix(f.Class, "*"))) {
			return f
		}
	}
	return nil
}

// ---------------------------------------------------------------------------
// check
// ---------------------------------------------------------------------------

type violGroup struct {
	prop, class string
	count       int
	best        *sim.RunResult // smallest scenario
	detail      string
	crashSeed   uint64
	crashSc     *sim.Scenario
	isCrash     bool
	race        bool
}

func tierIndex(tier string) int {
	if tier == "thorough" {
		return 1
	}
	return 0
}

func check(prop, tier string) int {
	plan, ok := plans[prop]
	if !ok {
		fatal2("no plan for property %s", prop)
	}
	start := time.Now()
	ti := tierIndex(tier)
	seed := uint64(envInt("VERIF_SEED", 1))
	bin := build(false)
	runs := plan.Runs[ti]
	if v := envInt("VERIF_RUNS", 0); v > 0 {
		runs = int(v)
	}
	base := seed*100_000_000 + 1
	var batches []batch
	for off := 0; off < runs; off += plan.Batch {
		c := plan.Batch
		if off+c > runs {
			c = runs - off
		}
		batches = append(batches, batch{prop: prop, from: base + uint64(off), count: uint64(c)})
	}
	results, crashes, _ := runAll(bin, batches, nil)
	// race pass
	var raceRes []*sim.RunResult
	var raceReports []string
	if plan.RaceRuns[ti] > 0 {
		rbin := build(true)
		var rb []batch
		for off := 0; off < plan.RaceRuns[ti]; off += 10 {
			c := 10
			if off+c > plan.RaceRuns[ti] {
				c = plan.RaceRuns[ti] - off
			}
			rb = append(rb, batch{prop: prop, from: base + uint64(off), count: uint64(c), race: true})
		}
		var rc []crashInfo
		raceRes, rc, raceReports = runAll(rbin, rb, nil)
		crashes = append(crashes, rc...)
	}
	// regression scenarios of repaired defects: a fixed entry suppresses
	// nothing, the violation is reported again if it ever returns.
	// Files named <PROP>-race-* are replayed on the -race build.
	regs, _ := filepath.Glob(filepath.Join(verifDir, "regress", prop+"-*.json"))
	sort.Strings(regs)
	for i, rp := range regs {
		sc, err := sim.LoadScenario(rp)
		if err != nil {
			fatal2("regress %s: %v", rp, err)
		}
		sc.Expect = nil
		isRace := strings.HasPrefix(filepath.Base(rp), prop+"-race-")
		useBin := bin
		if isRace {
			if plan.RaceRuns[ti] == 0 {
				continue
			}
			useBin = filepath.Join(workDir, "sim.race.test")
		}
		r, c := replayOnce(useBin, rp, fmt.Sprintf("regress-%d", i))
		if r != nil {
			r.Scenario = sc
			r.Seed = uint64(900_000_000 + i)
			if isRace {
				raceRes = append(raceRes, r)
			} else {
				results = append(results, r)
			}
		} else if c != nil {
			crashes = append(crashes, crashInfo{Seed: 0, Class: c.Class, Detail: c.Detail, Sc: sc})
		}
	}
	rbinPath := ""
	if plan.RaceRuns[ti] > 0 {
		rbinPath = filepath.Join(workDir, "sim.race.test")
	}
	return report(prop, tier, seed, plan, bin, rbinPath, results, raceRes, crashes, raceReports, start)
}

func report(prop, tier string, seed uint64, plan Plan, bin, rbin string, results, raceRes []*sim.RunResult, crashes []crashInfo, raceReports []string, start time.Time) int {
	known := loadKnown()
	groups := map[string]*violGroup{}
	harness := map[string]int{}
	incidental := map[string]int{}
	sigs := map[string]struct{}{}
	faults := map[string]int{}
	probes := map[string]int{}
	counters := map[string]int64{}
	var simNs, yields int64
	var samples []interface{}
	for _, r := range results {
		if r.Harness != "" {
			harness[r.Harness]++
			continue
		}
		simNs += r.SimNs
		yields += r.Yields
		if r.NonTrivial {
			sigs[r.Signature] = struct{}{}
		}
		for k, v := range r.Faults {
			faults[k] += v
		}
		for k, v := range r.Probes {
			probes[k] += v
		}
		for k, v := range r.Counters {
			counters[k] += v
		}
		for _, v := range r.Violations {
			if v.Prop != prop {
				incidental[v.Prop+":"+v.Class]++
				continue
			}
			key := v.Prop + ":" + v.Class
			g := groups[key]
			if g == nil {
				g = &violGroup{prop: v.Prop, class: v.Class, detail: v.Detail}
				groups[key] = g
			}
			g.count++
			if r.Scenario != nil && (g.best == nil || len(r.Scenario.Steps) < len(g.best.Scenario.Steps)) {
				g.best = r
				g.detail = v.Detail
			}
		}
	}
	raceClasses := map[string]int{}
	for _, r := range raceRes {
		if r.Harness != "" && strings.HasPrefix(r.Harness, "race report") {
			harness[r.Harness]++
		}
		for _, v := range r.Violations {
			if v.Prop != prop || !strings.HasPrefix(v.Class, "race:") {
				continue // functional oracles are decided on the plain build
			}
			raceClasses[v.Class]++
			key := v.Prop + ":" + v.Class
			g := groups[key]
			if g == nil {
				g = &violGroup{prop: v.Prop, class: v.Class, detail: v.Detail, race: true}
				groups[key] = g
			}
			g.count++
			if r.Scenario == nil {
				r.Scenario = sim.Generate(prop, r.Seed)
			}
			if r.Scenario != nil && (g.best == nil || len(r.Scenario.Steps) < len(g.best.Scenario.Steps)) {
				g.best = r
				g.detail = v.Detail
			}
		}
	}
	for _, c := range crashes {
		key := prop + ":" + c.Class
		g := groups[key]
		if g == nil {
			g = &violGroup{prop: prop, class: c.Class, detail: c.Detail, isCrash: true, crashSeed: c.Seed, crashSc: c.Sc}
			groups[key] = g
		}
		g.count++
	}

	exit := 0
	violations := 0
	_ = os.MkdirAll(filepath.Join(verifDir, "replays"), 0o755)
	keys := make([]string, 0, len(groups))
	for k := range groups {
		keys = append(keys, k)
	}
	sort.Strings(keys)
	printedKnown := map[string]bool{}
	for _, key := range keys {
		g := groups[key]
		if g.class == "wall_watchdog" || g.class == "worker_died" {
			fmt.Printf("INCONCLUSIVE: property=%s %s seed=%d: %s\n", prop, g.class, g.crashSeed, clip(g.detail, 300))
			exit = max(exit, 2)
			continue
		}
		if kf := known.match(g.prop, g.class); kf != nil {
			if !printedKnown[kf.Class] {
				fmt.Printf("KNOWN-FINDING: property=%s %s [class %s, %d runs this time]\n", g.prop, kf.What, g.class, g.count)
				printedKnown[kf.Class] = true
			}
			continue
		}
		// confirm by replay in a fresh process
		var sc *sim.Scenario
		if g.best != nil {
			sc = g.best.Scenario
		} else if g.crashSc != nil {
			sc = g.crashSc
		} else if g.isCrash {
			sc = sim.Generate(prop, g.crashSeed)
		}
		if sc == nil {
			fmt.Printf("HARNESS-ERROR: violation %s without scenario\n", key)
			exit = max(exit, 2)
			continue
		}
		useBin := bin
		if g.race && rbin != "" {
			useBin = rbin
		}
		tmp := filepath.Join(workDir, "run", "confirm-"+sanitize(key)+".json")
		_ = sc.Save(tmp)
		r, c := replayOnce(useBin, tmp, "confirm-"+sanitize(key))
		if _, ok := classesOf(r, c, prop)[key]; !ok {
			fmt.Printf("NON-REPRODUCIBLE: %s (seed %d) did not reproduce in a fresh process\n", key, sc.Seed)
			exit = max(exit, 2)
			continue
		}
		m := &minimiser{bin: useBin, key: key, prop: prop}
		minSc := m.minimise(sc, time.Duration(envInt("VERIF_MIN_S", 60))*time.Second)
		minSc.Expect = &sim.Expectation{Class: key}
		minSc.Note = clip(g.detail, 500)
		rp := filepath.Join(verifDir, "replays", fmt.Sprintf("%s-%s-%d.json", prop, sanitize(g.class), sc.Seed))
		_ = minSc.Save(rp)
		// the minimised file must fail the same way in a fresh process
		r2, c2 := replayOnce(useBin, rp, "final-"+sanitize(key))
		if _, ok := classesOf(r2, c2, prop)[key]; !ok {
			_ = sc.Clone().Save(rp)
		}
		fmt.Printf("VIOLATION property=%s replay=%s\n", prop, rp)
		fmt.Printf("  class=%s runs=%d steps=%d (from %d, %d minimiser runs): %s\n", g.class, g.count, len(minSc.Steps), len(sc.Steps), m.tries, clip(g.detail, 400))
		violations++
		exit = max(exit, 1)
	}
	// known findings that were not observed this run: re-confirm by stored replay
	for _, kf := range known.Findings {
		if kf.Property != prop || printedKnown[kf.Class] || kf.Replay == "" {
			continue
		}
		rp := filepath.Join(verifDir, kf.Replay)
		if _, err := os.Stat(rp); err != nil {
			continue
		}
		r, c := replayOnce(bin, rp, "known-"+sanitize(kf.Class))
		for k := range classesOf(r, c, prop) {
			if known.match(prop, strings.TrimPrefix(k, prop+":")) == &kf || strings.HasPrefix(k, prop+":"+strings.TrimSuffix(kf.Class, "*")) {
				fmt.Printf("KNOWN-FINDING: property=%s %s [reproduced from %s]\n", prop, kf.What, kf.Replay)
				break
			}
		}
	}
	for h, n := range harness {
		fmt.Printf("note: %d runs inconclusive (harness): %s\n", n, h)
	}
	if len(harness) > 0 {
		tot := 0
		for _, n := range harness {
			tot += n
		}
		if tot*20 > len(results) {
			fmt.Printf("HARNESS-ERROR: more than 5%% of the runs were inconclusive\n")
			exit = max(exit, 2)
		}
	}
	for k, n := range incidental {
		fmt.Printf("note: incidental violation of another property seen %d times (decided by that property's own check): %s\n", n, k)
	}

	// reach self-assessment (thorough tier): a rare-branch probe stuck at zero
	// means the workload or the fault mix no longer reaches what it should
	if tier == "thorough" {
		for _, name := range requiredReach[prop] {
			n := int64(probes[name]) + int64(faults[name]) + counters[name]
			if n == 0 {
				fmt.Printf("SELF-ASSESSMENT: reach probe %q is stuck at zero in a thorough run\n", name)
				exit = max(exit, 2)
			}
		}
	}

	if violations > 0 {
		// a confirmed violation decides the exit code (harness trouble in other
		// runs of the same batch is reported above)
		exit = 1
	}

	// samples: a few complete scenarios
	for i := 0; i < len(results) && len(samples) < 2; i++ {
		sc := sim.Generate(prop, results[i].Seed)
		samples = append(samples, map[string]interface{}{"seed": results[i].Seed, "signature": results[i].Signature, "faults": results[i].Faults, "scenario": sc})
	}
	wall := time.Since(start).Seconds()
	ev := map[string]interface{}{
		"property_id": prop,
		"tier":        tier,
		"seed":        seed,
		"level":       plan.Level,
		"wall_s":      wall,
		"violations":  violations,
		"assumptions": plan.Assume,
		"coverage": map[string]interface{}{
			"evaluations":         len(results),
			"distinct_nontrivial": len(sigs),
			"rule":                plan.Rule,
			"samples":             samples,
			"runs_per_hour":       int(float64(len(results)) / wall * 3600),
			"seeds":               fmt.Sprintf("%d..%d", seed*100_000_000+1, seed*100_000_000+uint64(len(results))),
			"sim_time_s":          float64(simNs) / 1e9,
			"yields":              yields,
			"faults_fired":        faults,
			"probes":              probes,
			"counters":            counters,
			"inconclusive_runs":   harness,
			"real_components":     plan.Real,
			"stub_components":     plan.Stub,
			"race_reports":        len(raceReports),
			"race_build_runs":     len(raceRes),
			"race_classes":        raceClasses,
			"worker_crashes":      len(crashes),
		},
	}
	// (runs against a scratch tree, e.g. with a seeded change applied, keep their evidence out of /verif/evidence)
	evDir := envOr("VERIF_EVIDENCE_DIR", filepath.Join(verifDir, "evidence"))
	_ = os.MkdirAll(evDir, 0o755)
	b, _ := json.MarshalIndent(ev, "", " ")
	if err := os.WriteFile(filepath.Join(evDir, prop+".json"), append(b, '\n'), 0o644); err != nil {
		fatal2("write evidence: %v", err)
	}
	fmt.Printf("%s %s: %d runs, %d distinct non-trivial interleavings, %.1f s simulated, %d yields, wall %.1f s, exit %d\n",
		prop, tier, len(results), len(sigs), float64(simNs)/1e9, yields, wall, exit)
	return exit
}

func sanitize(s string) string {
	var sb strings.Builder
	for _, c := range s {
		if (c >= 'a' && c <= 'z') || (c >= 'A' && c <= 'Z') || (c >= '0' && c <= '9') || c == '_' || c == '-' {
			sb.WriteRune(c)
		} else {
			sb.WriteByte('_')
		}
	}
	r := sb.String()
	if len(r) > 80 {
		r = r[:80]
	}
	return r
}

func clip(s string, n int) string {
	if len(s) > n {
		return s[:n] + "..."
	}
	return s
}

func replay(path string) int {
	if abs, err := filepath.Abs(path); err == nil {
		path = abs
	}
	bin := build(false)
	sc, err := sim.LoadScenario(path)
	if err != nil {
		fatal2("load %s: %v", path, err)
	}
	r, c := replayOnce(bin, path, "user")
	cl := classesOf(r, c, sc.Prop)
	keys := make([]string, 0, len(cl))
	for k := range cl {
		keys = append(keys, k)
	}
	sort.Strings(keys)
	for _, k := range keys {
		fmt.Printf("violation %s: %s\n", k, clip(cl[k], 600))
	}
	if r != nil {
		fmt.Printf("trace_hash=%s yields=%d sim_ms=%.3f\n", r.TraceHash, r.Yields, float64(r.SimNs)/1e6)
	}
	if sc.Expect != nil {
		if _, ok := cl[sc.Expect.Class]; ok {
			fmt.Printf("VIOLATION property=%s replay=%s\n", sc.Prop, path)
			return 1
		}
		fmt.Printf("expected class %s did not reproduce\n", sc.Expect.Class)
		return 0
	}
	if len(cl) > 0 {
		return 1
	}
	return 0
}

func main() {
	if len(os.Args) < 2 {
		fmt.Println("usage: driver check <PROP> <quick|thorough> | replay <file> | build | selftest")
		os.Exit(2)
	}
	workDir = envOr("VERIF_WORK", filepath.Join(verifDir, ".work"))
	stdout := os.Stdout
	if err := sim.InitHarness(); err != nil {
		os.Stdout = stdout
		fatal2("harness init: %v", err)
	}
	os.Stdout = stdout // the engine is muted through the writers it captured; the driver itself prints
	_ = os.MkdirAll(filepath.Join(workDir, "run"), 0o755)
	_ = os.MkdirAll(filepath.Join(workDir, "cwd"), 0o755)
	switch os.Args[1] {
	case "build":
		build(false)
		build(true)
	case "check":
		if len(os.Args) < 4 {
			fatal2("usage: driver check <PROP> <tier>")
		}
		os.Exit(check(os.Args[2], os.Args[3]))
	case "replay":
		os.Exit(replay(os.Args[2]))
	case "selftest":
		os.Exit(selftest())
	default:
		fatal2("unknown command %s", os.Args[1])
	}
}

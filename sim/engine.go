package verifsim

import (
	"fmt"
	"io"
	"log"
	"os"
	"reflect"
	"sort"

	"github.com/frankkopp/FrankyGo/internal/config"
	"github.com/frankkopp/FrankyGo/internal/uci"
)

// The engine keeps its configuration in process-global variables. The
// harness snapshots the defaults once and restores them before every run.
var defaultSettings = config.Settings

var realStdout *os.File

// MuteEngine silences the engine's loggers. Must run before any engine
// object is created (the log back ends capture os.Stdout at creation).
func MuteEngine() {
	if realStdout != nil {
		return
	}
	realStdout = os.Stdout
	config.LogLevel = 0
	config.SearchLogLevel = 0
	config.TestLogLevel = 0
	dn, err := os.OpenFile(os.DevNull, os.O_WRONLY, 0)
	if err == nil {
		os.Stdout = dn
	}
	log.SetOutput(io.Discard)
}

// ResetEngineGlobals restores the global configuration and applies the
// harness defaults (no book, small hash) and the scenario's knob values.
func ResetEngineGlobals(cfg map[string]interface{}) error {
	config.Settings = defaultSettings
	config.Settings.Search.UseBook = false
	config.Settings.Search.TTSize = 2
	return ApplyConfig(cfg)
}

// ApplyConfig sets fields of config.Settings.Search / .Eval by name.
func ApplyConfig(cfg map[string]interface{}) error {
	keys := make([]string, 0, len(cfg))
	for k := range cfg {
		keys = append(keys, k)
	}
	sort.Strings(keys)
	for _, k := range keys {
		v := cfg[k]
		f := reflect.ValueOf(&config.Settings.Search).Elem().FieldByName(k)
		if !f.IsValid() {
			f = reflect.ValueOf(&config.Settings.Eval).Elem().FieldByName(k)
		}
		if !f.IsValid() {
			return fmt.Errorf("unknown config field %q", k)
		}
		switch f.Kind() {
		case reflect.Bool:
			b, ok := v.(bool)
			if !ok {
				return fmt.Errorf("config %s: want bool", k)
			}
			f.SetBool(b)
		case reflect.Int:
			switch n := v.(type) {
			case float64:
				f.SetInt(int64(n))
			case int:
				f.SetInt(int64(n))
			case int64:
				f.SetInt(n)
			default:
				return fmt.Errorf("config %s: want int", k)
			}
		case reflect.String:
			s, ok := v.(string)
			if !ok {
				return fmt.Errorf("config %s: want string", k)
			}
			f.SetString(s)
		default:
			return fmt.Errorf("config %s: unsupported kind", k)
		}
	}
	return nil
}

// BoolSearchSwitches lists the boolean search switches the swarm may flip.
// (Names are field names of the engine's search configuration; the list is
// derived by reflection so that new switches are picked up automatically.)
func BoolSearchSwitches() []string {
	var out []string
	t := reflect.TypeOf(config.Settings.Search)
	for i := 0; i < t.NumField(); i++ {
		if t.Field(i).Type.Kind() == reflect.Bool {
			out = append(out, t.Field(i).Name)
		}
	}
	return out
}

func init() {
	t := reflect.TypeOf(defaultSettings.Search)
	v := reflect.ValueOf(defaultSettings.Search)
	for i := 0; i < t.NumField(); i++ {
		if t.Field(i).Type.Kind() == reflect.Bool {
			defaultBool[t.Field(i).Name] = v.Field(i).Bool()
		}
	}
	t = reflect.TypeOf(defaultSettings.Eval)
	v = reflect.ValueOf(defaultSettings.Eval)
	for i := 0; i < t.NumField(); i++ {
		if t.Field(i).Type.Kind() == reflect.Bool {
			defaultBool[t.Field(i).Name] = v.Field(i).Bool()
		}
	}
}

// InitHarness prepares a process (worker or driver) for generating and
// running scenarios: muted engine, hooks, validated corpus and the engine's
// own option list (the generators draw from it, so every process that calls
// Generate must have it).
func InitHarness() error {
	MuteEngine()
	InstallHooks()
	if err := ValidateCorpus(); err != nil {
		return err
	}
	if err := ResetEngineGlobals(nil); err != nil {
		return err
	}
	EngineOptions = ParseUciOptions(uci.NewUciHandler().Command("uci"))
	if len(EngineOptions) == 0 {
		return fmt.Errorf("engine announced no options")
	}
	return nil
}

func setTTSize(mb int) { config.Settings.Search.TTSize = mb }

func setBook(dir, file, format string) {
	config.Settings.Search.UseBook = true
	config.Settings.Search.BookPath = dir
	config.Settings.Search.BookFile = file
	config.Settings.Search.BookFormat = format
}

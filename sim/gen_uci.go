package verifsim

import (
	"fmt"
	"strings"

	"github.com/frankkopp/FrankyGo/verifsim/rules"
)

// UciOption is an option as announced by the engine's own "uci" output.
type UciOption struct {
	Name    string
	Type    string
	Default string
	Min     string
	Max     string
}

// EngineOptions is filled at worker start from the engine's "uci" answer.
var EngineOptions []UciOption

// ParseUciOptions parses "option name X type T default D [min A max B]" lines.
func ParseUciOptions(out string) []UciOption {
	var opts []UciOption
	for _, l := range strings.Split(out, "\n") {
		l = strings.TrimSpace(l)
		if !strings.HasPrefix(l, "option name ") {
			continue
		}
		rest := strings.TrimPrefix(l, "option name ")
		i := strings.Index(rest, " type ")
		if i < 0 {
			continue
		}
		o := UciOption{Name: rest[:i]}
		f := strings.Fields(rest[i+6:])
		if len(f) > 0 {
			o.Type = f[0]
		}
		for k := 1; k+1 < len(f); k += 2 {
			switch f[k] {
			case "default":
				o.Default = f[k+1]
			case "min":
				o.Min = f[k+1]
			case "max":
				o.Max = f[k+1]
			}
		}
		opts = append(opts, o)
	}
	return opts
}

// Profile tunes the session generator per property.
type Profile struct {
	Prop        string
	Checks      []string
	Searches    [2]int // min,max searches per session
	Stalls      bool
	MaxBaseNs   int
	OptionSwarm bool
	// mode weights: depth,nodes,movetime,clock,infinite,ponder,mate,searchmoves
	W           [8]int
	MidReady    int  // percent chance of isready during a search
	Bursts      int  // percent chance of stop/position/go burst
	EarlyStop   int  // percent chance to stop a self-limiting search early
	ConfigSwarm bool // flip non-UCI switches through direct configuration
	Terminal    int  // percent chance a search is on a terminal / rule-draw root
	NewGame     int  // percent chance of ucinewgame between searches
}

var profiles = map[string]Profile{
	"C12": {Prop: "C12", Checks: []string{"c12", "c05"}, Searches: [2]int{3, 8}, Stalls: true, MaxBaseNs: 50000, OptionSwarm: true,
		W: [8]int{3, 3, 4, 4, 5, 5, 1, 0}, MidReady: 35, Bursts: 25, EarlyStop: 20, Terminal: 6, NewGame: 15},
	"C05": {Prop: "C05", Checks: []string{"c05", "c12"}, Searches: [2]int{5, 10}, Stalls: true, MaxBaseNs: 50000, OptionSwarm: true,
		W: [8]int{4, 4, 4, 3, 6, 4, 1, 0}, MidReady: 5, Bursts: 15, EarlyStop: 45, ConfigSwarm: true, Terminal: 4, NewGame: 5},
	"C13": {Prop: "C13", Checks: []string{"c13", "c05"}, Searches: [2]int{3, 7}, Stalls: false, MaxBaseNs: 10000, OptionSwarm: false,
		W: [8]int{4, 4, 8, 5, 0, 0, 0, 3}, MidReady: 0, Bursts: 0, EarlyStop: 0, Terminal: 3, NewGame: 5},
	"C14": {Prop: "C14", Checks: []string{"c12", "c05", "c14"}, Searches: [2]int{4, 9}, Stalls: true, MaxBaseNs: 30000, OptionSwarm: false,
		W: [8]int{2, 2, 5, 5, 4, 5, 0, 0}, MidReady: 30, Bursts: 40, EarlyStop: 35, Terminal: 5, NewGame: 10},
	"C07": {Prop: "C07", Checks: []string{"c05"}, Searches: [2]int{4, 8}, Stalls: false, MaxBaseNs: 8000, OptionSwarm: true,
		W: [8]int{8, 4, 2, 0, 3, 0, 1, 0}, MidReady: 0, Bursts: 5, EarlyStop: 25, ConfigSwarm: true, Terminal: 10, NewGame: 5},
}

// GenCost draws a node cost model.
func GenCost(rng *PRNG, maxBase int, stalls bool) CostModel {
	every := []int{1, 1, 1, 4, 16, 64}[rng.Intn(6)]
	base := int(rng.LogRange(1000, int64(maxBase)))
	c := CostModel{Every: every, BaseNs: base, JitterNs: rng.Intn(base/2 + 1)}
	if stalls && rng.Chance(0.4) {
		c.SetupStallPct = []int{10, 30, 100}[rng.Intn(3)]
		c.SetupStallMaxUs = int(rng.LogRange(50, 40000))
	}
	if stalls && rng.Chance(0.3) {
		c.TimerFireStallPct = []int{20, 50, 100}[rng.Intn(3)]
		c.TimerFireStallMaxUs = int(rng.LogRange(20, 20000))
	}
	if stalls && rng.Chance(0.3) {
		n := rng.Range(1, 3)
		at := int64(0)
		for i := 0; i < n; i++ {
			at += rng.LogRange(1, 20000)
			c.Stalls = append(c.Stalls, Stall{AtYield: at, DurUs: int(rng.LogRange(5000, 500000))})
		}
	}
	return c
}

// maxDepthFor bounds fixed-depth searches so that a run stays within its
// slot budget.
func maxDepthFor(every int) int {
	switch {
	case every >= 64:
		return 6
	case every >= 16:
		return 5
	case every >= 4:
		return 4
	}
	return 3
}

// genPosition draws a root: corpus FEN plus a seeded playout, rendered as a
// position command. Returns the command and the rules position.
func genPosition(rng *PRNG, terminalPct int) (string, *rules.Pos) {
	if rng.Intn(100) < terminalPct {
		switch rng.Intn(3) {
		case 0:
			tr := TerminalRoots[rng.Intn(len(TerminalRoots))]
			return "position fen " + tr.Fen, rules.MustFen(tr.Fen)
		case 1:
			// fifty-move draw root
			f := []string{"7k/8/8/8/8/8/R7/K7 w - - 100 90", "8/8/4k3/8/8/4K3/8/R7 w - - 120 80"}[rng.Intn(2)]
			return "position fen " + f, rules.MustFen(f)
		default:
			// repetition root: shuffle knights back and forth twice
			p := rules.MustFen(rules.StartFen)
			ms := []string{"g1f3", "g8f6", "f3g1", "f6g8", "g1f3", "g8f6", "f3g1", "f6g8"}
			for _, m := range ms {
				_ = p.Play(m)
			}
			return "position startpos moves " + strings.Join(ms, " "), p
		}
	}
	if rng.Intn(100) < 3 {
		// the side to move is being mated within a few moves (several legal moves)
		f := lostRoots[rng.Intn(len(lostRoots))]
		if p, err := rules.ParseFen(f); err == nil && p.Sane() && len(p.LegalMoves()) > 1 {
			return "position fen " + f, p
		}
	}
	if rng.Intn(100) < 7 {
		// a draw by rule within reach of the search (not at the root): the
		// half-move clock a few plies before 100, or every position of a
		// shuffle already seen twice
		if cmd, p, ok := genNearRuleDraw(rng); ok {
			return cmd, p
		}
	}
	var fen string
	if rng.Chance(0.3) {
		fen = rules.StartFen
	} else {
		fen = Corpus[rng.Intn(len(Corpus))]
	}
	p := rules.MustFen(fen)
	n := 0
	if rng.Intn(160) == 0 {
		// the end of a very long drawn game: fifty-move counter about to
		// expire after up to 512 plies (the announced maximum)
		ms := strings.Fields(longEndgameMoves)
		ms = ms[:len(ms)-rng.Intn(6)]
		q := rules.MustFen(longEndgameFen)
		okl := true
		for _, m := range ms {
			if q.Play(m) != nil {
				okl = false
				break
			}
		}
		if okl && len(q.LegalMoves()) > 0 && q.HalfMove < 100 {
			return "position fen " + longEndgameFen + " moves " + strings.Join(ms, " "), q
		}
	}
	if fen == rules.StartFen && rng.Intn(80) == 0 {
		// a very long game, close to the engine's documented capacity of 512 plies
		ms := Playout(p, rng.Range(300, 510), rng)
		if len(p.LegalMoves()) > 0 && p.HalfMove < 100 {
			return "position startpos moves " + strings.Join(ms, " "), p
		}
		p = rules.MustFen(fen)
	}
	switch rng.Intn(4) {
	case 0:
		n = 0
	case 1:
		n = rng.Range(1, 4)
	case 2:
		n = rng.Range(4, 16)
	default:
		n = rng.Range(0, 40)
	}
	ms := Playout(p, n, rng)
	// do not hand over a terminal position by accident: back off
	for len(ms) > 0 && len(p.LegalMoves()) == 0 {
		p = rules.MustFen(fen)
		ms = ms[:len(ms)-1]
		for _, m := range ms {
			_ = p.Play(m)
		}
	}
	var cmd string
	if fen == rules.StartFen && rng.Chance(0.7) {
		cmd = "position startpos"
	} else {
		cmd = "position fen " + fen
	}
	if len(ms) > 0 {
		cmd += " moves " + strings.Join(ms, " ")
	}
	return cmd, p
}

// lostRoots: the mover is forcibly mated within the horizon of a shallow search.
var lostRoots = []string{
	"8/8/8/8/8/4K3/R7/5k2 b - - 0 1",
	"2k5/8/2K5/8/8/8/8/7R b - - 0 1",
	"5K2/r7/4k3/8/8/8/8/8 w - - 0 1",
	"r7/8/8/8/8/2k5/8/2K5 w - - 0 1",
	"3k4/8/3K4/8/8/8/8/R7 b - - 0 1",
	"7k/8/5K2/8/8/8/8/6QR b - - 0 1",
	"k7/8/1K6/8/8/8/8/1Q5R b - - 0 1",
	"6k1/5ppp/8/8/8/8/8/K2RR3 b - - 0 1",
	"1k6/ppp5/8/8/8/8/8/3RR2K b - - 0 1",
}

// genNearRuleDraw returns a non-terminal root from which moves inside the
// search tree end the game by rule.
func genNearRuleDraw(rng *PRNG) (string, *rules.Pos, bool) {
	fen := Corpus[rng.Intn(len(Corpus))]
	if rng.Chance(0.3) {
		fen = rules.StartFen
	}
	p := rules.MustFen(fen)
	if rng.Chance(0.5) {
		if p.Ep >= 0 {
			return "", nil, false
		}
		p.HalfMove = rng.Range(92, 99)
		if p.FullMove < 60 {
			p.FullMove = rng.Range(60, 120)
		}
		f := p.Fen()
		q, err := rules.ParseFen(f)
		if err != nil || !q.Sane() || len(q.LegalMoves()) == 0 {
			return "", nil, false
		}
		return "position fen " + f, q, true
	}
	ms := Playout(p, rng.Intn(12), rng)
	// a shuffle: both sides move a piece out and back, so that the root and
	// the positions on the way have been seen twice / once before
	for tries := 0; tries < 10; tries++ {
		q := p.Clone()
		var sh []string
		ok := true
		var out [2]string
		for k := 0; k < 2 && ok; k++ {
			var cand []string
			for _, m := range q.LegalMoves() {
				if u := m.String(); len(u) == 4 {
					cand = append(cand, u)
				}
			}
			if len(cand) == 0 {
				ok = false
				break
			}
			out[k] = cand[rng.Intn(len(cand))]
			before := q.HalfMove
			if q.Play(out[k]) != nil || q.HalfMove != before+1 {
				ok = false // capture or pawn move: not reversible
				break
			}
			sh = append(sh, out[k])
		}
		for k := 0; k < 2 && ok; k++ {
			back := out[k][2:4] + out[k][0:2]
			before := q.HalfMove
			if q.Play(back) != nil || q.HalfMove != before+1 {
				ok = false
				break
			}
			sh = append(sh, back)
		}
		if !ok || len(q.LegalMoves()) == 0 || q.Placement() != p.Placement() {
			continue
		}
		all := append(append([]string{}, ms...), sh...)
		cmd := "position fen " + fen
		if fen == rules.StartFen {
			cmd = "position startpos"
		}
		return cmd + " moves " + strings.Join(all, " "), q, true
	}
	return "", nil, false
}

func gapAfterResult(rng *PRNG) int64 {
	switch rng.Intn(5) {
	case 0:
		return int64(rng.Intn(50)) // right away
	case 1:
		return int64(rng.Range(50, 5000)) // inside the 5 ms polling window
	case 2:
		return int64(rng.Range(1, 4)) * 5000 // exact multiples of 5 ms
	case 3:
		return int64(rng.Range(4000, 6000))
	default:
		return rng.LogRange(1000, 200000)
	}
}

// GenUciSession generates a protocol-valid scripted session.
func GenUciSession(prop string, seed uint64) *Scenario {
	pf, ok := profiles[prop]
	if !ok {
		pf = profiles["C12"]
	}
	rng := NewPRNG(seed, "scenario/"+prop)
	sc := &Scenario{Prop: prop, Kind: "uci", Seed: seed, Checks: pf.Checks, PollUs: []int64{20, 50, 200}[rng.Intn(3)]}
	sc.Cost = GenCost(rng, pf.MaxBaseNs, pf.Stalls)
	curOpt := map[string]string{}
	for _, o := range EngineOptions {
		curOpt[o.Name] = o.Default
	}
	wsRate := []float64{0, 0, 0.03, 0.15}[rng.Intn(4)]
	nameCaseRate := []float64{0, 0, 0.1, 0.4}[rng.Intn(4)]
	add := func(gap int64, op, line string) *Step {
		if n, v, ok := parseSetOption(line); ok && op == "send" {
			curOpt[n] = v
			if n != "Print Config" && nameCaseRate > 0 && rng.Chance(nameCaseRate) {
				// "the name of the option should not be case sensitive" (UCI)
				alt := []string{strings.ToLower(n), strings.ToUpper(n)}[rng.Intn(2)]
				line = strings.Replace(line, "name "+n, "name "+alt, 1)
			}
		}
		sc.Steps = append(sc.Steps, Step{GapUs: gap, Op: op, Line: line})
		if op == "send" && wsRate > 0 && rng.Chance(wsRate) {
			// "arbitrary white space between tokens is allowed" (UCI)
			sc.Steps[len(sc.Steps)-1].Ws = rng.Range(1, 5)
		}
		return &sc.Steps[len(sc.Steps)-1]
	}
	add(100, "send", "uci")
	if rng.Intn(100) < 6 {
		// a button pressed before anything has been initialised
		add(50, "send", "setoption name Clear Hash")
	}
	add(100, "send", "isready")
	add(0, "wait_ready", "").MaxMs = 50

	// option swarm through the protocol
	hash := []int{1, 2, 4, 16}[rng.Intn(4)]
	add(50, "send", fmt.Sprintf("setoption name Hash value %d", hash))
	if pf.OptionSwarm {
		rate := []float64{0, 0.08, 0.25, 0.5}[rng.Intn(4)]
		for _, o := range EngineOptions {
			if o.Type != "check" || o.Name == "Use_Book" {
				continue
			}
			if rng.Chance(rate) {
				v := "true"
				if o.Default == "true" {
					v = "false"
				}
				add(20, "send", fmt.Sprintf("setoption name %s value %s", o.Name, v))
			}
		}
	}
	if pf.ConfigSwarm {
		sc.Config = map[string]interface{}{}
		rate := []float64{0, 0.1, 0.3}[rng.Intn(3)]
		for _, k := range []string{"UseRazoring", "UseQFP", "UseTTMove", "UseTTValue", "UseEvalTT"} {
			if rng.Chance(rate) {
				sc.Config[k] = !boolDefault(k)
			}
		}
		if len(sc.Config) == 0 {
			sc.Config = nil
		}
	}
	// option audit: the engine's own configuration print-out before and
	// after a setoption (only while idle, as the protocol requires)
	if prop == "C12" && rng.Chance(0.6) {
		var cands []UciOption
		for _, o := range EngineOptions {
			if (o.Type == "check" || o.Type == "spin") && o.Name != "Use_Book" {
				cands = append(cands, o)
			}
		}
		for k := rng.Range(1, 5); k > 0 && len(cands) > 0; k-- {
			o := cands[rng.Intn(len(cands))]
			v := []string{"true", "false"}[rng.Intn(2)]
			if o.Type == "spin" {
				v = []string{"1", "2", "4", "8"}[rng.Intn(4)]
			}
			add(20, "send", "setoption name Print Config")
			add(20, "send", fmt.Sprintf("setoption name %s value %s", o.Name, v))
			add(20, "send", "setoption name Print Config")
		}
	}
	add(20, "send", "isready")
	add(0, "wait_ready", "").MaxMs = 50

	n := rng.Range(pf.Searches[0], pf.Searches[1])
	maxD := maxDepthFor(sc.Cost.Every)
	perCheck := int64(sc.Cost.BaseNs + sc.Cost.JitterNs)
	stallMs := int64(0)
	for _, s := range sc.Cost.Stalls {
		stallMs += int64(s.DurUs)/1000 + 1
	}
	// analysis session shape: many short searches that keep returning to a
	// few positions (entries of earlier searches age in the hash table and
	// are hit again much later)
	var pool []string
	var poolRoots []*rules.Pos
	if (prop == "C05" || prop == "C07") && rng.Chance(0.2) {
		n = rng.Range(10, 18)
		for k := rng.Range(2, 4); k > 0; k-- {
			pc, pr := genPosition(rng, 0)
			if len(pc) < 1500 {
				pool = append(pool, pc)
				poolRoots = append(poolRoots, pr)
			}
		}
	}
	firstGap := int64(200)
	// budget: one search should not need more than ~80k yields (the run has
	// 900k tie-free slots), so fake durations are capped by the cost model
	perYieldNs := int64(sc.Cost.Every) * int64(sc.Cost.BaseNs)
	capUs := 80_000 * perYieldNs / 1000
	if capUs < 2000 {
		capUs = 2000
	}
	capMs := capUs / 1000
	clampUs := func(v int64) int64 {
		if v > capUs {
			return capUs
		}
		return v
	}
	clampMs := func(v int64, factor int64) int64 {
		if v > capMs*factor {
			return capMs * factor
		}
		if v < 1 {
			return 1
		}
		return v
	}
	for s := 0; s < n; s++ {
		if prop == "C14" && rng.Intn(100) < 12 {
			// the handler's perft command runs in its own goroutine and is ended by stop
			add(firstGap, "send", fmt.Sprintf("perft %d", rng.Range(1, 3)))
			add(rng.LogRange(1, 3000), "send", "stop")
			firstGap = int64(rng.Range(1, 300))
		}
		if s > 0 && rng.Intn(100) < pf.NewGame {
			add(gapAfterResult(rng), "send", "ucinewgame")
			firstGap = int64(rng.Range(0, 300))
		}
		if s > 0 && rng.Intn(100) < 6 {
			// the hash size is changed between two searches, including the
			// lowest announced value (min 0: the engine's default size)
			v := []int{0, 0, 1, 3, 8}[rng.Intn(5)]
			add(gapAfterResult(rng), "send", fmt.Sprintf("setoption name Hash value %d", v))
			firstGap = int64(rng.Range(0, 300))
		}
		if rng.Intn(100) < 6 {
			// the hash is cleared between two searches (with Use_Hash off there is no table)
			add(gapAfterResult(rng), "send", "setoption name Clear Hash")
			firstGap = int64(rng.Range(0, 300))
		}
		posCmd, root := genPosition(rng, pf.Terminal)
		if len(pool) > 0 {
			k := rng.Intn(len(pool))
			posCmd, root = pool[k], poolRoots[k]
		}
		burst := s > 0 && rng.Intn(100) < pf.Bursts
		if burst {
			// stop (idle engine), position, go delivered back to back
			add(firstGap, "send", "stop").Fault = "F4"
			add(0, "send", posCmd)
		} else {
			add(firstGap, "send", posCmd)
		}
		if !burst && rng.Intn(100) < 15 {
			add(int64(rng.Intn(200)), "send", "isready")
			add(0, "wait_ready", "").MaxMs = 50
		}
		goGap := int64(rng.Intn(300))
		if burst {
			goGap = 0
		}
		mode := rng.PickWeighted(pf.W[:])
		if len(pool) > 0 {
			mode = []int{0, 0, 1, 2}[rng.Intn(4)] // short self-limiting searches
		}
		side := "w"
		if !root.WhiteTo {
			side = "b"
		}
		var goLine string
		selfLimit := true
		ponderUntimed := false
		var boundMs int64 = 600_000
		switch mode {
		case 0: // depth
			goLine = fmt.Sprintf("go depth %d", rng.Range(1, maxD))
		case 1: // nodes
			goLine = fmt.Sprintf("go nodes %d", rng.LogRange(1, 20000))
		case 2: // movetime
			mt := clampMs(rng.LogRange(1, 400), 1)
			if rng.Chance(0.25) {
				// boundary values around typical safety margins and polling periods
				mt = clampMs([]int64{1, 2, 4, 5, 6, 9, 10, 11, 15, 19, 20, 21, 25, 40, 50, 100}[rng.Intn(16)], 1)
			}
			goLine = fmt.Sprintf("go movetime %d", mt)
			boundMs = mt + 2000
		case 3: // clock
			wt, bt := clampMs(rng.LogRange(40, 20000), 20), clampMs(rng.LogRange(40, 20000), 20)
			goLine = fmt.Sprintf("go wtime %d btime %d", wt, bt)
			if rng.Chance(0.5) {
				goLine += fmt.Sprintf(" winc %d binc %d", rng.LogRange(1, 2000), rng.LogRange(1, 2000))
			}
			if rng.Chance(0.4) {
				mtg := rng.Range(1, 40)
				if prop == "C13" {
					mtg = widenMovesToGo(mtg)
				}
				goLine += fmt.Sprintf(" movestogo %d", mtg)
			}
			boundMs = 120_000
		case 4: // infinite
			goLine = "go infinite"
			if rng.Intn(100) < 15 {
				// a second limit does not end an infinite search: still only stop does
				goLine += []string{fmt.Sprintf(" depth %d", rng.Range(1, 3)), fmt.Sprintf(" nodes %d", rng.LogRange(1, 3000)), fmt.Sprintf(" movetime %d", clampMs(rng.LogRange(1, 50), 1))}[rng.Intn(3)]
			}
			selfLimit = false
		case 5: // ponder
			wt, bt := clampMs(rng.LogRange(100, 5000), 20), clampMs(rng.LogRange(100, 5000), 20)
			goLine = fmt.Sprintf("go ponder wtime %d btime %d", wt, bt)
			if rng.Chance(0.3) {
				goLine = fmt.Sprintf("go ponder movetime %d", clampMs(rng.LogRange(5, 300), 1))
			}
			if rng.Intn(100) < 15 {
				// pondering with a depth or node limit instead of a clock: the
				// limit holds for the search after the ponderhit
				goLine = []string{fmt.Sprintf("go ponder depth %d", rng.Range(1, maxD)), fmt.Sprintf("go ponder nodes %d", rng.LogRange(1, 20000))}[rng.Intn(2)]
				ponderUntimed = true
			}
			selfLimit = false
		case 6: // mate
			goLine = fmt.Sprintf("go mate %d", rng.Range(1, 4))
			selfLimit = false
		case 7: // searchmoves
			lm := root.LegalMoves()
			if len(lm) == 0 {
				goLine = "go depth 2"
			} else {
				k := rng.Range(1, min(3, len(lm)))
				var ms []string
				for _, i := range permK(rng, len(lm), k) {
					ms = append(ms, lm[i].String())
				}
				// a strict subset of the promotions of one pawn (typically a
				// single under-promotion) when the root has promotions
				var promos []string
				for _, m := range lm {
					if m.Promo != 0 && m.Promo != rules.Q {
						promos = append(promos, m.String())
					}
				}
				if len(promos) > 0 && rng.Chance(0.6) {
					ms = []string{promos[rng.Intn(len(promos))]}
					if rng.Chance(0.3) && len(lm) > 1 {
						ms = append(ms, lm[rng.Intn(len(lm))].String())
					}
				}
				goLine = fmt.Sprintf("go depth %d searchmoves %s", rng.Range(1, maxD), strings.Join(ms, " "))
			}
		}
		_ = side
		add(goGap, "send", goLine)
		// mid-search isready
		if rng.Intn(100) < pf.MidReady {
			add(rng.LogRange(1, 20000), "send", "isready")
			add(0, "wait_ready", "").MaxMs = 50 + stallMs
		}
		stopBoundMs := (stopChecksBound*perCheck+stopSlackNs)/1_000_000 + 1 + stallMs
		if selfLimit {
			if rng.Intn(100) < pf.EarlyStop {
				st := add(clampUs(rng.LogRange(1, 100000)), "send", "stop")
				st.Fault = "F1"
				add(0, "wait_best", "").MaxMs = stopBoundMs + 50
			} else {
				add(0, "wait_best", "").MaxMs = boundMs + stallMs
			}
		} else {
			gap := clampUs(rng.LogRange(5, 300000))
			if mode == 5 && rng.Chance(0.6) {
				// ponderhit, possibly twice, then the clock budget runs out (or we stop)
				add(gap, "send", "ponderhit").Fault = "F5"
				if rng.Chance(0.15) {
					add(int64(rng.Intn(3000)), "send", "ponderhit").Fault = "F5"
				}
				if rng.Chance(0.3) {
					st := add(rng.LogRange(5, 50000), "send", "stop")
					st.Fault = "F1"
					add(0, "wait_best", "").MaxMs = stopBoundMs + 50
				} else if ponderUntimed {
					add(0, "wait_best", "").MaxMs = 600_000
				} else {
					add(0, "wait_best", "").MaxMs = 20000 + stallMs
				}
			} else {
				st := add(gap, "send", "stop")
				st.Fault = "F1"
				add(0, "wait_best", "").MaxMs = stopBoundMs + 50
			}
		}
		firstGap = gapAfterResult(rng)
	}
	// new game == fresh engine: the same fixed-depth search after ucinewgame
	// and on a brand-new handler with the same options
	if prop == "C12" && rng.Chance(0.35) {
		posCmd, _ := genPosition(rng, 0)
		goLine := fmt.Sprintf("go depth %d", rng.Range(1, maxD))
		// options may be changed while the engine is idle: switch one off
		// (or on) around the ucinewgame and restore it afterwards - the fresh
		// engine runs with the same final options
		toggle := ""
		if rng.Chance(0.6) {
			toggle = "Use_Hash"
			if rng.Chance(0.4) {
				var checks []string
				for _, o := range EngineOptions {
					if o.Type == "check" && o.Name != "Use_Book" {
						checks = append(checks, o.Name)
					}
				}
				toggle = checks[rng.Intn(len(checks))]
			}
		}
		// the game before the new game went through the very position that
		// is searched afterwards (as deep as the cost model allows): whatever
		// the engine keeps from a game is then about this position. Drawn
		// from a stream of its own; the rest of the session does not change.
		if pr := NewPRNG(seed, "newgame-prime/"+prop); pr.Chance(0.6) {
			goLine = fmt.Sprintf("go depth %d", maxD)
			n := pr.Range(1, 2)
			for k := 0; k < n; k++ {
				d := maxD - pr.Intn(2)
				if d < 1 {
					d = 1
				}
				add(gapAfterResult(pr), "send", posCmd)
				add(20, "send", fmt.Sprintf("go depth %d", d))
				add(0, "wait_best", "").MaxMs = 600_000
			}
		}
		restore := curOpt[toggle]
		if toggle != "" {
			flipped := "true"
			if strings.EqualFold(restore, "true") {
				flipped = "false"
			}
			add(gapAfterResult(rng), "send", fmt.Sprintf("setoption name %s value %s", toggle, flipped))
		}
		add(gapAfterResult(rng), "send", "ucinewgame")
		if toggle != "" {
			add(20, "send", fmt.Sprintf("setoption name %s value %s", toggle, restore))
		}
		add(20, "send", posCmd)
		add(20, "send", goLine)
		add(0, "wait_best", "").MaxMs = 600_000
		add(100, "fresh_engine", "")
		add(20, "send", posCmd)
		add(20, "send", goLine)
		add(0, "wait_best", "").MaxMs = 600_000
	}
	return sc
}

func boolDefault(field string) bool {
	v, ok := defaultBool[field]
	if !ok {
		return false
	}
	return v
}

var defaultBool = map[string]bool{}

func permK(rng *PRNG, n, k int) []int {
	idx := make([]int, n)
	for i := range idx {
		idx[i] = i
	}
	for i := 0; i < k && i < n; i++ {
		j := i + rng.Intn(n-i)
		idx[i], idx[j] = idx[j], idx[i]
	}
	if k > n {
		k = n
	}
	return idx[:k]
}

package verifsim

import (
	"fmt"
	"hash/fnv"
	"os"
	"runtime"
	"time"

	"github.com/frankkopp/FrankyGo/internal/position"
	"github.com/frankkopp/FrankyGo/internal/verifhook"

	"github.com/frankkopp/FrankyGo/verifsim/rules"
)

// ---------------------------------------------------------------------------
// Slot scheduler
//
// Every scheduling point under simulator control sleeps until a fake instant
// whose residue modulo 1 ms has never been used before in this run. Engine
// pollers (5 ms timer poll, 5 ms busy wait) always start their period inside
// such a slot and therefore keep its residue. Hence no two goroutines are
// ever woken at the same fake instant: the synctest bubble runs exactly one
// goroutine until it blocks and then advances the clock to the next wake-up.
//
// Harness actors (GUI, API controller, auxiliary watcher) own private
// residue lattices (offset 7/13/19 ns, step 1 us) which the allocator never
// hands out, so they can compute their own wake instants without touching
// shared allocator state.
// ---------------------------------------------------------------------------

const (
	resMod      = 1_000_000 // ns in 1 ms
	latticeStep = 1000      // actors may wake once per microsecond
	offGUI      = 7
	offCtl      = 13
	offAux      = 19
	offLoop     = 23 // protocol loop taking over a line that had to wait for it
	maxSlots    = 900_000
	maxTokens   = 1 << 16
	maxEvents   = 1 << 17
)

// Harness-side event kinds (engine hook kinds are < 100).
const (
	EvSend      = 100 // harness handed a line / issued an API call
	EvOut       = 101 // engine wrote an output line
	EvResult    = 102 // SendResult at API level
	EvCallRet   = 103 // API call returned
	EvReadyOk   = 104
	EvBookGrant = 105
)

// CostModel is the simulated CPU cost of the search's stop checks.
type CostModel struct {
	Every    int     `json:"every"`     // yield every n-th stop check
	BaseNs   int     `json:"base_ns"`   // cost of one stop check
	JitterNs int     `json:"jitter_ns"` // uniform extra cost per yield
	Stalls   []Stall `json:"stalls,omitempty"`
	// SetupStallPct: percent of time-controlled searches whose set-up (after
	// the search clock has started, before the first iteration) costs up to
	// SetupStallMaxUs of fake time (slow initialisation: table ageing, GC pause)
	SetupStallPct   int `json:"setup_stall_pct,omitempty"`
	SetupStallMaxUs int `json:"setup_stall_max_us,omitempty"`
	// TimerFireStallPct: percent of expiring timers that are descheduled for up
	// to TimerFireStallMaxUs between deciding to end the search and doing it
	TimerFireStallPct   int `json:"timer_fire_stall_pct,omitempty"`
	TimerFireStallMaxUs int `json:"timer_fire_stall_max_us,omitempty"`
}

// Stall is a descheduling of the search thread (fault F3).
type Stall struct {
	AtYield int64 `json:"at_yield"`
	DurUs   int   `json:"dur_us"`
}

// Ev is one entry of the event trace.
type Ev struct {
	T    int64  // fake ns since epoch
	Kind int    //
	Tok  uint64 // timer / worker token, or harness-defined
	Gen  int    // search generation at the time of the event
}

// TermViolation is a mate/stalemate classification the rules model rejects.
type TermViolation struct {
	Kind  string `json:"kind"`
	Fen   string `json:"fen"`
	Legal int    `json:"legal_moves"`
	Check bool   `json:"in_check"`
}

// Sim is the per-run simulator state.
type Sim struct {
	Seed  uint64
	epoch time.Time

	next    []int32
	slots   int64
	inAlloc int32
	// Reentry is set when two goroutines were inside the allocator at once
	// (violates the one-goroutine-per-instant invariant: harness failure).
	Reentry   bool
	Exhausted bool
	Abort     bool
	Killed    int

	Cost        CostModel
	costRng     *PRNG
	nodeCalls   int64
	Yields      int64
	stallIdx    int
	StallsHit   int
	SetupStalls int
	TimerFireStalls int

	tokenSeq  uint64
	firstSlot []int64
	tokenKind []uint8
	tokenGen  []int32

	nEvents int64

	// lifecycle observation (written on engine goroutines, read by actors
	// at their own instants)
	SearchGen    int
	SearchActive bool
	TimersLive   int
	BusyWaiting  bool
	LastEndT     int64
	// InResultWindow: the search has sent its result but still holds the running lock
	InResultWindow bool
	YieldsAtStart  int64
	TimerFires     int
	// FiredGen[g]: search generation g was ended by its own timer
	FiredGen []bool
	Rejected int
	// StaleFires counts TimerFire events whose timer was spawned by an
	// earlier search generation than the one running when it fired.
	StaleFires []Ev

	// C07 monitor
	termSeen    map[string]struct{}
	TermChecked int
	TermMate    int
	TermStale   int
	TermBad     []TermViolation
	MonitorTerm bool

	// book scheduling
	BookRng      *PRNG
	BookStrategy int
	BookWorkers  int
	BookGrants   []uint32 // worker token per lock grant
	bookCur      uint64
	grantSeq     uint64

	hash uint64
}

// NewSim creates the simulator state; must be called inside the bubble.
func NewSim(seed uint64, cost CostModel) *Sim {
	s := &Sim{
		Seed:      seed,
		epoch:     time.Now(),
		next:      make([]int32, resMod+1),
		Cost:      cost,
		costRng:   NewPRNG(seed, "cost"),
		firstSlot: make([]int64, maxTokens),
		tokenKind: make([]uint8, maxTokens),
		tokenGen:  make([]int32, maxTokens),
		termSeen:  make(map[string]struct{}),
		BookRng:   NewPRNG(seed, "book"),
		hash:      1469598103934665603,
	}
	if s.Cost.Every < 1 {
		s.Cost.Every = 1
	}
	if s.Cost.BaseNs < 100 {
		s.Cost.BaseNs = 100
	}
	for i := 0; i <= resMod; i++ {
		s.next[i] = int32(i)
	}
	// exclude the actors' private lattices
	for r := 0; r < resMod; r += latticeStep {
		s.next[r+offGUI] = int32(r + offGUI + 1)
		s.next[r+offCtl] = int32(r + offCtl + 1)
		s.next[r+offAux] = int32(r + offAux + 1)
		s.next[r+offLoop] = int32(r + offLoop + 1)
	}
	return s
}

// Now returns fake nanoseconds since the start of the run.
//
//go:norace
func (s *Sim) Now() int64 { return int64(time.Since(s.epoch)) }

//go:norace
func (s *Sim) find(r int) int {
	root := r
	for int(s.next[root]) != root {
		root = int(s.next[root])
	}
	for int(s.next[r]) != root {
		n := int(s.next[r])
		s.next[r] = int32(root)
		r = n
	}
	return root
}

// reserve returns an absolute fake instant >= now+d with a fresh residue.
//
//go:norace
func (s *Sim) reserve(d int64) int64 {
	s.inAlloc++
	if s.inAlloc != 1 {
		s.Reentry = true
	}
	if d < 1 {
		d = 1
	}
	t := s.Now() + d
	if s.slots >= maxSlots {
		s.Exhausted = true
		s.inAlloc--
		return t
	}
	r := int(t % resMod)
	f := s.find(r)
	if f == resMod { // wrap
		f = s.find(0)
		t += int64(resMod - r + f)
	} else {
		t += int64(f - r)
	}
	s.next[f] = int32(f + 1)
	s.slots++
	s.inAlloc--
	return t
}

//go:norace
func (s *Sim) sleepUntil(t int64) {
	d := t - s.Now()
	if d > 0 {
		time.Sleep(time.Duration(d))
	}
}

// ActorWake returns the first instant on the actor's private lattice that
// is >= now+gap (and strictly after now).
//
//go:norace
func (s *Sim) ActorWake(off int, gapNs int64) int64 {
	now := s.Now()
	t := now + gapNs
	if t <= now {
		t = now + 1
	}
	r := t % latticeStep
	if r <= int64(off) {
		t += int64(off) - r
	} else {
		t += latticeStep - r + int64(off)
	}
	return t
}

// ActorSleep sleeps the calling actor for at least gap on its lattice.
func (s *Sim) ActorSleep(off int, gapNs int64) {
	s.sleepUntil(s.ActorWake(off, gapNs))
}

// record folds an event into the determinism fingerprint. The fingerprint
// is a commutative sum of per-event hashes (each includes the fake instant),
// so that the order in which two goroutines of one hand-off window reach the
// recorder does not matter.
//
//go:norace
func (s *Sim) record(kind int, tok uint64) {
	h := uint64(1469598103934665603)
	h = (h ^ uint64(s.Now())) * 1099511628211
	h = (h ^ uint64(kind)) * 1099511628211
	h = (h ^ tok) * 1099511628211
	harnessLock()
	s.hash += mix64(h)
	s.nEvents++
	if debugTrace {
		debugLog = append(debugLog, fmt.Sprintf("%d ev %d %d", s.Now(), kind, tok))
	}
	harnessUnlock()
}

var debugTrace = os.Getenv("VERIF_DEBUG_TRACE") != ""
var debugLog []string

// MixHash folds harness-level observations into the determinism hash.
//
//go:norace
func (s *Sim) MixHash(b []byte) {
	h := uint64(1469598103934665603)
	h = (h ^ uint64(s.Now())) * 1099511628211
	for _, c := range b {
		h = (h ^ uint64(c)) * 1099511628211
	}
	harnessLock()
	s.hash += mix64(h)
	if debugTrace {
		debugLog = append(debugLog, fmt.Sprintf("%d mix %s", s.Now(), string(b)))
	}
	harnessUnlock()
}

// TraceHash is the determinism fingerprint of the run so far.
func (s *Sim) TraceHash() string {
	h := fnv.New64a()
	if debugTrace {
		fmt.Fprintf(os.Stderr, "TRACEHASH %d/%d/%d/%d ev=%d\n", s.hash, s.Yields, s.nodeCalls, s.slots, s.nEvents)
	}
	fmt.Fprintf(h, "%d/%d/%d/%d", s.hash, s.Yields, s.nodeCalls, s.slots)
	return fmt.Sprintf("%016x", h.Sum64())
}

// ---------------------------------------------------------------------------
// Hook dispatch. The hook variables are set once per process; they dispatch
// to the current run.
// ---------------------------------------------------------------------------

var curSim *Sim

// InstallHooks wires the verifhook package to the current simulator.
func InstallHooks() {
	verifhook.YieldFn = hookYield
	verifhook.EventFn = hookEvent
	verifhook.TokenFn = hookToken
}

// SetCurrent makes s the target of the hooks (nil: hooks are no-ops).
func SetCurrent(s *Sim) { curSim = s }

//go:norace
func hookYield(kind int, key uint64) {
	s := curSim
	if s == nil {
		return
	}
	switch kind {
	case verifhook.SearchNode:
		if s.Exhausted || s.Abort {
			// kill switch: the run is inconclusive; end the search goroutine
			// (its deferred release of the running lock still runs)
			s.SearchActive = false
			s.Killed++
			runtime.Goexit()
		}
		s.nodeCalls++
		if s.nodeCalls%int64(s.Cost.Every) != 0 {
			return
		}
		d := int64(s.Cost.Every) * int64(s.Cost.BaseNs)
		if s.Cost.JitterNs > 0 {
			d += int64(s.costRng.Intn(s.Cost.JitterNs + 1))
		}
		if s.stallIdx < len(s.Cost.Stalls) && s.Yields >= s.Cost.Stalls[s.stallIdx].AtYield {
			d += int64(s.Cost.Stalls[s.stallIdx].DurUs) * 1000
			s.stallIdx++
			s.StallsHit++
		}
		s.Yields++
		t := s.reserve(d)
		s.sleepUntil(t)
	case verifhook.TimerStart:
		s.record(kind, key)
		if key < maxTokens {
			s.sleepUntil(s.firstSlot[key])
		}
	case verifhook.ResultSent:
		if key == 1 && s.costRng.Intn(2) == 0 {
			// (key 1: at the output seam, right after the bestmove line has been
			// delivered; key 0: after the search has handed its result over)
			return
		}
		s.InResultWindow = true
		defer func() { s.InResultWindow = false }()
		// the window between the result being visible to the controller and
		// the search goroutine releasing the running lock
		s.record(kind, 0)
		d := 500 + int64(s.costRng.Intn(30000))
		if s.costRng.Intn(5) == 0 {
			// the search goroutine is descheduled right after writing its result
			d = 30000 + int64(s.costRng.Intn(3_000_000))
		}
		t := s.reserve(d)
		s.sleepUntil(t)
	case verifhook.BusyWait:
		s.BusyWaiting = true
		s.record(kind, 0)
		t := s.reserve(1000)
		s.sleepUntil(t)
	case verifhook.BookWorkerStart:
		if key < maxTokens {
			s.sleepUntil(s.firstSlot[key])
		}
		// from here on this worker is alone in its instant
		s.bookSetWorker(key)
	case verifhook.BookLock:
		w := s.bookCurrentWorker()
		d := s.bookDelay(w)
		t := s.reserve(d)
		s.sleepUntil(t)
		s.bookGrant(w)
	}
}

//go:norace
func hookToken(kind int) uint64 {
	s := curSim
	if s == nil {
		return 0
	}
	s.tokenSeq++
	tok := s.tokenSeq
	if tok >= maxTokens {
		s.Exhausted = true
		return 0
	}
	switch kind {
	case verifhook.TimerSpawn:
		s.tokenKind[tok] = 1
		s.tokenGen[tok] = int32(s.SearchGen)
		s.TimersLive++
		s.record(kind, tok)
		if s.Cost.SetupStallPct > 0 && s.costRng.Intn(100) < s.Cost.SetupStallPct {
			// fault F3 at search set-up: the spawning goroutine is slow here
			d := int64(1000 + s.costRng.Intn(s.Cost.SetupStallMaxUs*1000+1))
			s.SetupStalls++
			t := s.reserve(d)
			s.sleepUntil(t)
		}
		// the child's first slot is reserved last: it must lie in the future
		// when the child starts, so that parent and child never share an instant
		// beyond the spawn itself
		d0 := 500 + int64(s.costRng.Intn(4000))
		if s.Cost.TimerFireStallPct > 0 && s.costRng.Intn(100) < s.Cost.TimerFireStallPct {
			// fault F3 on the timer goroutine: it is not scheduled for a while
			// after it has been spawned (the search may have ended by then)
			s.TimerFireStalls++
			d0 += int64(s.costRng.Intn(s.Cost.TimerFireStallMaxUs*1000 + 1))
		}
		s.firstSlot[tok] = s.reserve(d0)
	case verifhook.BookSpawn:
		s.BookWorkers++
		s.firstSlot[tok] = s.reserve(s.bookFirstDelay(tok))
		s.tokenKind[tok] = 2
	}
	return tok
}

//go:norace
func hookEvent(kind int, a interface{}) {
	s := curSim
	if s == nil {
		return
	}
	switch kind {
	case verifhook.SearchStart:
		s.SearchGen++
		s.SearchActive = true
		s.BusyWaiting = false
		s.YieldsAtStart = s.Yields
		s.record(kind, uint64(s.SearchGen))
		if s.Cost.SetupStallPct > 0 && s.costRng.Intn(100) < s.Cost.SetupStallPct/2 {
			// fault F3 at the very start of the search goroutine: it is
			// descheduled right after it has taken the running lock
			s.SetupStalls++
			d := int64(1000 + s.costRng.Intn(s.Cost.SetupStallMaxUs*1000+1))
			t := s.reserve(d)
			s.sleepUntil(t)
		}
	case verifhook.SearchEnd:
		s.SearchActive = false
		s.BusyWaiting = false
		s.LastEndT = s.Now()
		s.record(kind, uint64(s.SearchGen))
	case verifhook.SearchRejected:
		s.Rejected++
		s.record(kind, 0)
	case verifhook.TimerFire:
		tok, _ := a.(uint64)
		s.record(kind, tok)
		s.TimerFires++
		if s.SearchActive && tok < maxTokens && int(s.tokenGen[tok]) == s.SearchGen {
			// the running search is being ended by its own timer
			for len(s.FiredGen) <= s.SearchGen {
				s.FiredGen = append(s.FiredGen, false)
			}
			s.FiredGen[s.SearchGen] = true
		}
		if tok < maxTokens && (int(s.tokenGen[tok]) != s.SearchGen || !s.SearchActive) {
			s.StaleFires = append(s.StaleFires, Ev{T: s.Now(), Kind: kind, Tok: tok, Gen: s.SearchGen})
		}
		if s.Cost.TimerFireStallPct > 0 && s.costRng.Intn(100) < s.Cost.TimerFireStallPct {
			// fault F3 on the timer goroutine: it has decided to end its search
			// and is descheduled before it does so
			s.TimerFireStalls++
			d := int64(1000 + s.costRng.Intn(s.Cost.TimerFireStallMaxUs*1000+1))
			t := s.reserve(d)
			s.sleepUntil(t)
		}
	case verifhook.TimerExit:
		tok, _ := a.(uint64)
		s.TimersLive--
		s.record(kind, tok)
	case verifhook.TerminalMate, verifhook.TerminalStalemate:
		if s.MonitorTerm {
			s.onTerminal(kind, a)
		}
	}
}

// onTerminal is the in-run invariant monitor of C07: every node the search
// classifies as mate or stalemate is handed to the independent rules model.
// Runs on the search goroutine; touches only state that search goroutines
// touch (ordered by the engine's own lifecycle semaphores).
func (s *Sim) onTerminal(kind int, a interface{}) {
	p, ok := a.(*position.Position)
	if !ok || p == nil {
		return
	}
	fen := p.StringFen()
	key := fen
	if kind == verifhook.TerminalMate {
		key = "M" + fen
		s.TermMate++
	} else {
		s.TermStale++
	}
	if _, dup := s.termSeen[key]; dup {
		return
	}
	if len(s.termSeen) < 200000 {
		s.termSeen[key] = struct{}{}
	}
	s.TermChecked++
	rp, err := rules.ParseFen(fen)
	if err != nil {
		s.TermBad = append(s.TermBad, TermViolation{Kind: "unparsable", Fen: fen})
		return
	}
	legal := len(rp.LegalMoves())
	check := rp.InCheck()
	bad := legal != 0
	if kind == verifhook.TerminalMate && !check {
		bad = true
	}
	if kind == verifhook.TerminalStalemate && check {
		bad = true
	}
	if bad && len(s.TermBad) < 16 {
		k := "stalemate"
		if kind == verifhook.TerminalMate {
			k = "mate"
		}
		s.TermBad = append(s.TermBad, TermViolation{Kind: k, Fen: fen, Legal: legal, Check: check})
	}
}

// ---------------------------------------------------------------------------
// Book build scheduling (C19): the grant order of the package-level book
// lock is a seeded permutation.
// ---------------------------------------------------------------------------

// Book schedule strategies.
const (
	BookUniform = iota
	BookReversed
	BookStraggler
	BookRoundRobin
	BookBursts
	bookStrategies
)

// The current worker is identified by bookCur: a worker stores its token
// whenever it wakes up; since it runs alone until its next sleep, every hook
// it reaches before sleeping again reads its own token.
const BookStrategies = bookStrategies

//go:norace
func (s *Sim) bookSetWorker(tok uint64) { s.bookCur = tok }

//go:norace
func (s *Sim) bookCurrentWorker() uint64 { return s.bookCur }

//go:norace
func (s *Sim) bookFirstDelay(tok uint64) int64 {
	n := int64(tok)
	switch s.BookStrategy {
	case BookReversed:
		return (maxTokens - n) * 1000
	case BookStraggler:
		if n == 1 {
			return 50_000_000
		}
		return 1000 + int64(s.BookRng.Intn(200_000))
	case BookRoundRobin:
		return n * 1000
	case BookBursts:
		return int64(s.BookRng.Intn(8))*1_000_000 + int64(s.BookRng.Intn(2000))
	default:
		return 1000 + int64(s.BookRng.Intn(2_000_000))
	}
}

//go:norace
func (s *Sim) bookDelay(w uint64) int64 {
	switch s.BookStrategy {
	case BookReversed, BookRoundRobin:
		return int64(s.BookWorkers+1) * 1000
	case BookStraggler:
		if w == 1 {
			return 3_000_000
		}
		return 1000 + int64(s.BookRng.Intn(100_000))
	case BookBursts:
		if s.BookRng.Intn(4) == 0 {
			return 1_000_000 + int64(s.BookRng.Intn(1_000_000))
		}
		return 1000 + int64(s.BookRng.Intn(3000))
	default:
		return 1000 + int64(s.BookRng.Intn(1_000_000))
	}
}

//go:norace
func (s *Sim) bookGrant(w uint64) {
	// after the sleep the worker is alone again: re-assert identity for the
	// following hooks of this goroutine until it sleeps again.
	s.bookCur = w
	if len(s.BookGrants) < 1<<20 {
		s.BookGrants = append(s.BookGrants, uint32(w))
	}
	harnessLock()
	s.grantSeq++
	s.hash += mix64(w*1099511628211 ^ s.grantSeq)
	harnessUnlock()
}

package verifsim

import (
	"fmt"
	"strconv"
	"strings"

	"github.com/frankkopp/FrankyGo/internal/position"
	tt "github.com/frankkopp/FrankyGo/internal/transpositiontable"
	"github.com/frankkopp/FrankyGo/internal/types"
)

// ---------------------------------------------------------------------------
// C11: the transposition table as a shared store. Operation histories
// (Steps with Op "tt") are executed by two actor goroutines (the "search"
// actor and the "controller" actor, handing over like the engine's lifecycle
// lock does) against the real table; after every operation the table is
// compared with a small reference store.
// ---------------------------------------------------------------------------

type ttModelEntry struct {
	key         uint64
	move        uint32 // 16 bit move part
	value       int
	depth       int
	typ         int
	agedSince   bool // AgeEntries was called since this entry was stored
	probedSince bool // probed since the last AgeEntries
	// netAged: ageing rounds since the store that have not been taken back by
	// a later probe hit (a hit makes the entry one round younger; a hit on an
	// entry that is not aged earns no credit for later rounds)
	netAged      int
	storedAtStep int
}

type ttModel struct {
	cap   uint64
	slots map[uint64]*ttModelEntry
}

func ttCapacityFor(mb int) uint64 {
	bytes := uint64(mb) * 1024 * 1024
	entries := bytes / 16
	if entries == 0 {
		return 0
	}
	c := uint64(1)
	for c*2 <= entries {
		c *= 2
	}
	return c
}

// parseCap reads "max entries N" out of the table's own description (the
// engine prints numbers with German thousands separators).
func parseCap(desc string) (uint64, bool) {
	i := strings.Index(desc, "max entries ")
	if i < 0 {
		return 0, false
	}
	s := desc[i+len("max entries "):]
	var digits strings.Builder
	for _, c := range s {
		if c >= '0' && c <= '9' {
			digits.WriteRune(c)
		} else if c == '.' || c == ',' {
			continue
		} else {
			break
		}
	}
	n, err := strconv.ParseUint(digits.String(), 10, 64)
	return n, err == nil
}

// TTOut is the outcome of a table history.
type TTOut struct {
	Sim        *Sim
	Violations []Violation
	StateHash  uint64
	Probes     map[string]int
	Faults     map[string]int
	Ops        int
}

func (o *TTOut) violate(class, detail string) {
	for _, v := range o.Violations {
		if v.Class == class {
			return
		}
	}
	o.Violations = append(o.Violations, Violation{Prop: "C11", Class: class, Detail: detail})
}

type ttObs struct {
	found    bool
	key      uint64
	move     uint32
	value    int
	depth    int
	typ      int
	lenV     uint64
	full     int
	desc     string
	panicked string
}

func observeEntry(e *tt.TtEntry) ttObs {
	if e == nil {
		return ttObs{}
	}
	return ttObs{found: true, key: uint64(e.Key), move: uint32(e.Move.MoveOf()), value: int(e.Move.ValueOf()), depth: int(e.Depth), typ: int(e.Type)}
}

// RunTT executes a table history inside the current bubble.
func RunTT(sc *Scenario) *TTOut {
	sim := NewSim(sc.Seed, sc.Cost)
	SetCurrent(sim)
	defer SetCurrent(nil)
	out := &TTOut{Sim: sim, Probes: map[string]int{}, Faults: map[string]int{}, StateHash: 1469598103934665603}
	size := 1
	if sc.TT != nil && sc.TT.SizeMB > 0 {
		size = sc.TT.SizeMB
	}
	table := tt.NewTtTable(size)
	m := &ttModel{slots: map[uint64]*ttModelEntry{}}
	if c, ok := parseCap(table.String()); ok {
		m.cap = c
	} else {
		out.violate("capacity_unreadable", table.String())
		return out
	}
	if want := ttCapacityFor(size); m.cap != want {
		out.violate("capacity_wrong", fmt.Sprintf("requested %d MB: capacity %d entries, largest power of two of 16-byte entries that fits is %d", size, m.cap, want))
	}

	type req struct {
		step int
		f    []string
	}
	type resp struct {
		obs  ttObs
		post ttObs // GetEntry(key) after a put
	}
	reqCh := [2]chan req{make(chan req), make(chan req)}
	respCh := make(chan resp)
	actor := func(id int) {
		off := offCtl
		if id == 0 {
			off = offGUI
		}
		for r := range reqCh[id] {
			sim.ActorSleep(off, 1000)
			var rs resp
			func() {
				defer func() {
					if p := recover(); p != nil {
						rs.obs.panicked = fmt.Sprint(p)
					}
				}()
				switch r.f[0] {
				case "put":
					key, _ := strconv.ParseUint(r.f[1], 10, 64)
					mv, _ := strconv.ParseUint(r.f[2], 10, 32)
					d, _ := strconv.Atoi(r.f[3])
					v, _ := strconv.Atoi(r.f[4])
					ty, _ := strconv.Atoi(r.f[5])
					table.Put(position.Key(key), types.Move(mv), int8(d), types.Value(v), types.ValueType(ty), false)
					rs.post = observeEntry(table.GetEntry(position.Key(key)))
				case "probe":
					key, _ := strconv.ParseUint(r.f[1], 10, 64)
					rs.obs = observeEntry(table.Probe(position.Key(key)))
				case "get":
					key, _ := strconv.ParseUint(r.f[1], 10, 64)
					rs.obs = observeEntry(table.GetEntry(position.Key(key)))
				case "age":
					table.AgeEntries()
				case "clear":
					table.Clear()
				case "resize":
					mb, _ := strconv.Atoi(r.f[1])
					table.Resize(mb)
				}
				rs.obs.lenV = table.Len()
				rs.obs.full = table.Hashfull()
				if r.f[0] == "resize" {
					rs.obs.desc = table.String()
				}
			}()
			respCh <- rs
		}
	}
	go actor(0)
	go actor(1)

	for i, st := range sc.Steps {
		if st.Op != "tt" {
			continue
		}
		f := strings.Fields(st.Line)
		if len(f) == 0 {
			continue
		}
		a := st.Arg & 1
		// the controller only acts on the table while the search is idle:
		// clear/resize belong to the controller, everything else to either
		reqCh[a] <- req{step: i, f: f}
		rs := <-respCh
		out.Ops++
		if rs.obs.panicked != "" {
			out.violate("panic", fmt.Sprintf("step %d %q: %s", i, st.Line, rs.obs.panicked))
			break
		}
		key := uint64(0)
		if len(f) > 1 && f[0] != "resize" {
			key, _ = strconv.ParseUint(f[1], 10, 64)
		}
		slot := uint64(0)
		if m.cap > 0 {
			slot = key & (m.cap - 1)
		}
		switch f[0] {
		case "put":
			mv, _ := strconv.ParseUint(f[2], 10, 32)
			d, _ := strconv.Atoi(f[3])
			v, _ := strconv.Atoi(f[4])
			ty, _ := strconv.Atoi(f[5])
			ne := &ttModelEntry{key: key, move: uint32(mv) & 0xFFFF, value: v, depth: d, typ: ty, storedAtStep: i}
			res := m.slots[slot]
			stored := rs.post.found && rs.post.key == key
			switch {
			case m.cap == 0:
				// nothing can be stored
			case res == nil:
				out.Probes["put_empty_slot"]++
				if !stored {
					out.violate("put_lost", fmt.Sprintf("step %d %q into an empty slot is not readable afterwards", i, st.Line))
				}
				m.slots[slot] = ne
			case res.key == key:
				out.Probes["put_update"]++
				if !stored {
					out.violate("put_lost", fmt.Sprintf("step %d %q (update of the same key) is not readable afterwards", i, st.Line))
				}
				m.slots[slot] = ne
			default:
				out.Faults["F12_index_collision"]++
				replaced := stored
				must, mustNot := false, false
				switch {
				case d > res.depth:
					must = true
					out.Probes["collision_deeper"]++
				case d < res.depth:
					mustNot = true
					out.Probes["collision_shallower"]++
				default:
					if !res.agedSince {
						mustNot = true
						out.Probes["collision_equal_fresh"]++
					} else if res.netAged == 0 {
						// every ageing round has been taken back by a later hit:
						// the running search has just used this entry
						mustNot = true
						out.Probes["collision_equal_aged_and_refreshed"]++
					} else if !res.probedSince {
						must = true
						out.Probes["collision_equal_aged"]++
					} else {
						out.Probes["collision_equal_aged_probed"]++
					}
				}
				// The statement says a colliding store replaces the resident
				// "only if" it is deeper, or equally deep and the resident has
				// aged: replacing is never demanded, so a missing replacement is
				// counted (reach probe) but is not a violation.
				if must && !replaced {
					out.Probes["expected_replacement_not_done"]++
				}
				if mustNot && replaced {
					out.violate("replacement_wrong", fmt.Sprintf("step %d %q collides with resident (key %d depth %d aged=%v probed=%v): must not replace but did", i, st.Line, res.key, res.depth, res.agedSince, res.probedSince))
				}
				if replaced {
					m.slots[slot] = ne
				} else {
					// the resident must still be there, intact
					if !rs.post.found && false {
						_ = 0
					}
				}
			}
			// whatever is resident now must equal the model
			if cur := m.slots[slot]; cur != nil && stored {
				if rs.post.move != cur.move || rs.post.value != cur.value || rs.post.depth != cur.depth || rs.post.typ != cur.typ {
					out.violate(classifyMismatch(cur, rs.post), fmt.Sprintf("step %d %q: read back move=%d value=%d depth=%d type=%d", i, st.Line, rs.post.move, rs.post.value, rs.post.depth, rs.post.typ))
				}
			}
		case "probe", "get":
			res := m.slots[slot]
			want := res != nil && res.key == key
			if rs.obs.found && rs.obs.key != key {
				out.violate("wrong_key_returned", fmt.Sprintf("step %d %q returned an entry stored under key %d", i, st.Line, rs.obs.key))
			}
			if want && !rs.obs.found {
				out.violate("entry_lost", fmt.Sprintf("step %d %q: entry stored at step %d not found", i, st.Line, res.storedAtStep))
			}
			if !want && rs.obs.found {
				out.violate("phantom_entry", fmt.Sprintf("step %d %q: found an entry although none is stored for the key", i, st.Line))
			}
			if want && rs.obs.found {
				out.Probes["hit_checked"]++
				if rs.obs.move != res.move || rs.obs.value != res.value || rs.obs.depth != res.depth || rs.obs.typ != res.typ {
					out.violate(classifyMismatch(res, rs.obs), fmt.Sprintf("step %d %q: stored at step %d move=%d value=%d depth=%d type=%d, read move=%d value=%d depth=%d type=%d",
						i, st.Line, res.storedAtStep, res.move, res.value, res.depth, res.typ, rs.obs.move, rs.obs.value, rs.obs.depth, rs.obs.typ))
				}
				if f[0] == "probe" {
					res.probedSince = true
					if res.netAged > 0 {
						res.netAged--
					}
				}
			}
		case "age":
			out.Faults["F12_age"]++
			for _, e := range m.slots {
				e.agedSince = true
				e.probedSince = false
				e.netAged++
			}
		case "clear":
			out.Faults["F12_clear"]++
			m.slots = map[uint64]*ttModelEntry{}
		case "resize":
			out.Faults["F12_resize"]++
			mb, _ := strconv.Atoi(f[1])
			m.slots = map[uint64]*ttModelEntry{}
			c, ok := parseCap(rs.obs.desc)
			if !ok {
				out.violate("capacity_unreadable", rs.obs.desc)
			}
			m.cap = c
			if want := ttCapacityFor(mb); c != want {
				out.violate("capacity_wrong", fmt.Sprintf("resize to %d MB: capacity %d entries, largest power of two of 16-byte entries that fits is %d", mb, c, want))
			}
		}
		// entry count and fill level
		occ := uint64(len(m.slots))
		if rs.obs.lenV != occ {
			out.violate("len_wrong", fmt.Sprintf("after step %d %q: Len()=%d but %d slots are occupied", i, st.Line, rs.obs.lenV, occ))
		}
		if m.cap > 0 {
			if want := int(1000 * occ / m.cap); rs.obs.full != want {
				out.violate("hashfull_wrong", fmt.Sprintf("after step %d %q: Hashfull()=%d but %d of %d slots are occupied (%d permill)", i, st.Line, rs.obs.full, occ, m.cap, want))
			}
		}
		h := out.StateHash
		h = (h ^ occ) * 1099511628211
		h = (h ^ uint64(len(f[0]))) * 1099511628211
		h = (h ^ slot) * 1099511628211
		out.StateHash = h
	}
	close(reqCh[0])
	close(reqCh[1])
	sim.ActorSleep(offAux, 10_000)
	return out
}

func classifyMismatch(want *ttModelEntry, got ttObs) string {
	switch {
	case got.value != want.value && want.move == 0:
		return "value_lost_without_move"
	case got.value != want.value:
		return "value_corrupted"
	case got.move != want.move:
		return "move_corrupted"
	case got.depth != want.depth:
		return "depth_corrupted"
	}
	return "type_corrupted"
}

// GenTT generates a table history.
func GenTT(seed uint64) *Scenario {
	rng := NewPRNG(seed, "tt")
	sc := &Scenario{Prop: "C11", Kind: "tt", Seed: seed, Checks: []string{"c11"}, Cost: CostModel{Every: 1, BaseNs: 1000}}
	sizes := []int{0, 1, 2, 3, 5, 64} // 0: a table without entries (the announced minimum of the Hash option)
	sc.TT = &TTSpec{SizeMB: sizes[rng.Intn(len(sizes)-1)]}
	if rng.Intn(20) == 0 {
		sc.TT.SizeMB = 64
	}
	// key pool built to collide in the index bits at every capacity used:
	// few distinct low-bit patterns, zero middle bits, few distinct tags
	lows := []uint64{1, 2, 3, 0xFFFF, 0xFFFE, 0x8000, 0x1234, 0xFFFFF, 0x3FFFFF}
	nl := rng.Range(2, len(lows))
	nt := rng.Range(2, 6)
	// the ageing work is partitioned over worker goroutines: keys whose index
	// lies at or next to k/n of the capacity (any partition into n <= 32 parts)
	capNow := ttCapacityFor(sc.TT.SizeMB)
	boundary := func() uint64 {
		n := uint64(rng.Range(2, 32))
		k := uint64(rng.Range(1, int(n)))
		idx := k * capNow / n
		if rng.Intn(2) == 0 {
			idx = capNow - (uint64(rng.Range(1, int(n)))*((capNow+n-1)/n))%capNow // partitions counted from the end, rounded up
		}
		idx = (idx + uint64(rng.Range(0, 4)) + capNow - 2) % capNow
		return idx | uint64(rng.Range(1, nt))<<40
	}
	sc.Procs = []int{1, 2, 3, 5, 6, 7, 12, 16, 24}[rng.Intn(9)]
	key := func() uint64 {
		if rng.Intn(6) == 0 && capNow > 0 {
			return boundary()
		}
		if rng.Intn(10) == 0 {
			k := rng.Uint64()
			if k == 0 {
				k = 1
			}
			return k
		}
		return lows[rng.Intn(nl)] | uint64(rng.Range(1, nt))<<40
	}
	value := func() int {
		switch rng.Intn(6) {
		case 0:
			return 10000 - rng.Intn(130)
		case 1:
			return -10000 + rng.Intn(130)
		case 2:
			return []int{0, 1, -1, 10000, -10000, 9871, -9871}[rng.Intn(7)]
		}
		return rng.Range(-9000, 9000)
	}
	move := func() uint32 {
		if rng.Intn(5) == 0 {
			return 0 // MoveNone: the search stores mate/stalemate and fail-low nodes this way
		}
		return uint32(rng.Range(1, 0xFFFF))
	}
	n := rng.Range(10, 200)
	for i := 0; i < n; i++ {
		var line string
		arg := 0
		switch rng.PickWeighted([]int{10, 6, 3, 2, 1, 1}) {
		case 0:
			line = fmt.Sprintf("put %d %d %d %d %d", key(), move(), rng.PickWeightedDepth(), value(), rng.Range(1, 3))
		case 1:
			line = fmt.Sprintf("probe %d", key())
		case 2:
			line = fmt.Sprintf("get %d", key())
		case 3:
			line = "age"
		case 4:
			line, arg = "clear", 1
		case 5:
			line, arg = fmt.Sprintf("resize %d", sizes[rng.Intn(len(sizes)-1)]), 1
		}
		sc.Steps = append(sc.Steps, Step{Op: "tt", Line: line, Arg: arg})
	}
	return sc
}

// PickWeightedDepth draws a depth 0..127 with many ties.
func (r *PRNG) PickWeightedDepth() int {
	switch r.Intn(4) {
	case 0:
		return r.Range(0, 3)
	case 1:
		return r.Range(0, 127)
	case 2:
		return []int{0, 1, 127, 64}[r.Intn(4)]
	}
	return r.Range(1, 8)
}

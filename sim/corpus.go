package verifsim

import (
	"github.com/frankkopp/FrankyGo/verifsim/rules"
)

// Corpus is a list of legal start positions (inputs only; every one is
// validated with the rules model at worker start).
var Corpus = []string{
	rules.StartFen,
	// crowded boards with legal material: more than 64 legal moves in one position
	"r1qqk2r/1q4q1/pp4pp/8/8/PP4PP/1Q4Q1/R1QQK2R w - - 0 1",
	"R6R/3Q4/1Q4Q1/4Q3/2Q4Q/Q4Q2/pp1Q4/kBNN1KB1 w - - 0 1",
	// openings / middlegames
	"r1bqkbnr/pppp1ppp/2n5/4p3/4P3/5N2/PPPP1PPP/RNBQKB1R w KQkq - 2 3",
	"rnbqkb1r/pp2pppp/3p1n2/8/3NP3/8/PPP2PPP/RNBQKB1R w KQkq - 1 5",
	"r1bq1rk1/ppp2ppp/2np1n2/2b1p3/2B1P3/2NP1N2/PPP2PPP/R1BQ1RK1 w - - 0 7",
	"r3k2r/p1ppqpb1/bn2pnp1/3PN3/1p2P3/2N2Q1p/PPPBBPPP/R3K2R w KQkq - 0 1",
	"r4rk1/1pp1qppp/p1np1n2/2b1p1B1/2B1P1b1/P1NP1N2/1PP1QPPP/R4RK1 w - - 0 10",
	"rnbq1k1r/pp1Pbppp/2p5/8/2B5/8/PPP1NnPP/RNBQK2R w KQ - 1 8",
	"r3k2r/Pppp1ppp/1b3nbN/nP6/BBP1P3/q4N2/Pp1P2PP/R2Q1RK1 w kq - 0 1",
	"r2q1rk1/pP1p2pp/Q4n2/bbp1p3/Np6/1B3NBn/pPPP1PPP/R3K2R b KQ - 0 1",
	"2rq1rk1/pb1n1ppN/4p3/1pb5/3P1Pn1/P1N5/1PQ1B1PP/R1B2RK1 b - - 0 16",
	"r1b2rk1/pp1nqppp/2p1pn2/3p4/2PP4/2N1PN2/PPQ1BPPP/R3K2R w KQ - 4 9",
	"r1bqk2r/pp2bppp/2n1pn2/2pp4/3P1B2/2P1PN2/PP1N1PPP/R2QKB1R w KQkq - 2 7",
	"r2qkb1r/1b1n1ppp/p2ppn2/1p6/3NPP2/2N1B3/PPPQ2PP/2KR1B1R w kq - 0 10",
	"3r1rk1/p1q2pbp/1np1p1p1/2p5/4PP2/1PNP1Q2/PBP3PP/4RR1K w - - 1 17",
	"6k1/p1qb1p1p/1p3np1/2b2p2/2B5/2P3N1/PP2QPPP/4N1K1 b - - 0 1",
	"r1bq1r1k/1pp1n1pp/1p1p4/4p2Q/4Pp2/1BNP4/PPP2PPP/3R1RK1 w - - 2 14",
	// en passant / castling edge cases
	"rnbqkbnr/ppp1p1pp/8/3pPp2/8/8/PPPP1PPP/RNBQKBNR w KQkq f6 0 3",
	"rnbqkbnr/pp1ppppp/8/8/2pPP3/8/PPP2PPP/RNBQKBNR b KQkq d3 0 3",
	"8/8/8/2k5/2pP4/8/B7/4K3 b - d3 0 3",
	"8/8/8/8/k2Pp2R/8/8/4K3 b - d3 0 1",
	"4k3/8/8/K2pP2r/8/8/8/8 w - d6 0 2",
	"r3k2r/8/8/8/8/8/8/R3K2R w KQkq - 0 1",
	"r3k2r/8/8/8/8/8/8/R3K2R b KQkq - 0 1",
	"r3k2r/8/8/8/8/8/6b1/R3K2R w KQkq - 0 1",
	"r3k2r/8/8/8/8/5n2/8/R3K2R w KQkq - 0 1",
	"4k2r/8/8/8/8/8/8/R3K3 w Qk - 0 1",
	"r3k3/1P6/8/8/8/8/8/4K3 w q - 0 1",
	// promotion races
	"8/P7/8/8/8/8/7p/K6k w - - 0 1",
	"8/2P5/8/8/8/8/5p2/K6k b - - 0 1",
	"4k3/P6P/8/8/8/8/p6p/4K3 w - - 0 1",
	"n1n5/PPPk4/8/8/8/8/4Kppp/5N1N b - - 0 1",
	"8/PPPk4/8/8/8/8/4Kppp/8 w - - 0 1",
	"8/5P1k/8/8/8/8/1p6/K7 w - - 0 1",
	// mates in 1-4, stalemate traps
	"6k1/5ppp/8/8/8/8/8/R3K3 w Q - 0 1",
	"k7/8/1K6/8/8/8/8/7R w - - 0 1",
	"7k/5Q2/6K1/8/8/8/8/8 w - - 0 1",
	"7k/8/5KQ1/8/8/8/8/8 w - - 0 1",
	"5k2/5P2/5K2/8/8/8/8/8 w - - 0 1",
	"k7/P7/K7/8/8/8/8/8 b - - 0 1",
	"7k/5K2/6Q1/8/8/8/8/8 b - - 0 1",
	"8/8/8/8/8/5k2/6q1/7K w - - 0 1",
	"r1bqkb1r/pppp1Qpp/2n2n2/4p3/2B1P3/8/PPPP1PPP/RNB1K1NR b KQkq - 0 4",
	"rnb1kbnr/pppp1ppp/8/4p3/6Pq/5P2/PPPPP2P/RNBQKBNR w KQkq - 1 3",
	"1k1r4/pp1b1R2/3q2pp/4p3/2B5/4Q3/PPP2B2/2K5 b - - 0 1",
	"3r1k2/4npp1/1ppr3p/p6P/P2PPPP1/1NR5/5K2/2R5 w - - 0 1",
	"2rr3k/pp3pp1/1nnqbN1p/3pN3/2pP4/2P3Q1/PPB4P/R4RK1 w - - 0 1",
	"r1b1k2r/ppppnppp/2n2q2/2b5/3NP3/2P1B3/PP3PPP/RN1QKB1R w KQkq - 3 7",
	"4r1k1/pp3ppp/8/8/8/8/PP3PPP/4R1K1 w - - 0 1",
	"6k1/5p1p/6p1/8/8/8/1r3PPP/R5K1 b - - 0 1",
	"5rk1/5ppp/8/8/8/8/8/3QK3 w - - 0 1",
	"2k5/8/2K5/8/8/8/8/1R6 w - - 10 50",
	// basic endings
	"8/8/8/4k3/8/8/4P3/4K3 w - - 0 1",
	"8/8/8/4k3/8/4K3/4P3/8 b - - 0 1",
	"8/4k3/8/8/8/8/4P3/4K3 w - - 0 1",
	"8/8/4k3/8/8/4K3/8/R7 w - - 0 1",
	"8/8/4k3/8/8/4K3/8/Q7 b - - 0 1",
	"8/8/8/8/8/2k5/1p6/1K6 w - - 0 1",
	"8/2p5/3p4/KP5r/1R3p1k/8/4P1P1/8 w - - 0 1",
	"8/k7/3p4/p2P1p2/P2P1P2/8/8/K7 w - - 0 1",
	"8/8/p1p5/1p5p/1P5p/8/PPP2K1p/4R1rk w - - 0 1",
	"1q1k4/2Rr4/8/2Q3K1/8/8/8/8 w - - 0 1",
	"7k/3p2pp/4q3/8/4Q3/5Kp1/P6b/8 w - - 0 1",
	"8/8/8/8/5kp1/P7/8/1K1N4 w - - 0 1",
	"8/8/8/5N2/8/p7/8/2NK3k w - - 0 1",
	"6k1/6p1/6P1/6K1/8/8/8/8 w - - 0 1",
	"8/8/1p6/p1p5/P1P5/1P6/8/k1K5 w - - 0 1",
	"8/5k2/8/5K2/5P2/8/8/8 b - - 0 1",
	"K7/8/k7/8/8/8/8/1r6 b - - 0 1",
	"8/8/8/8/8/1k6/8/KB5N w - - 0 1",
	"8/8/8/8/8/1k6/8/KB6 w - - 0 1",
	"8/8/8/8/8/1k6/8/K1n5 w - - 0 1",
	"k7/8/8/8/8/8/8/K7 w - - 0 1",
	"8/8/8/3k4/8/3K4/8/8 b - - 0 1",
	"8/8/8/3k4/8/3KB3/8/5b2 w - - 0 1",
	// near fifty-move / repetition bait
	"8/8/4k3/8/8/4K3/8/R7 w - - 98 80",
	"8/8/4k3/8/8/4K3/8/R7 w - - 99 80",
	"8/8/4k3/8/8/4K3/8/R7 b - - 97 80",
	"7k/8/8/8/8/8/R7/K7 w - - 100 90",
	"6k1/5ppp/8/8/8/8/5PPP/3R2K1 w - - 96 70",
	// stalemates and mates as roots (terminal roots)
	"7k/5Q2/5K2/8/8/8/8/8 b - - 0 1",
	"k7/2Q5/1K6/8/8/8/8/8 b - - 0 1",
	"7k/6Q1/5K2/8/8/8/8/8 b - - 0 1",
	"R6k/6pp/8/8/8/8/8/K7 b - - 0 1",
	"rnb1kbnr/pppp1ppp/8/4p3/6Pq/5P2/PPPPP2P/RNBQKBNR w KQkq - 1 3",
	"5k2/5P2/5K2/8/8/8/8/8 b - - 0 1",
	"8/8/8/8/8/6k1/5q2/7K w - - 0 1",
	// single legal move roots
	"7k/8/8/8/8/8/5q2/7K w - - 0 1",
	"k7/8/8/8/8/8/r7/1K5r w - - 0 1",
	"6rk/6pp/8/8/8/8/8/K6R b - - 0 1",
	// tactical
	"r1bq1rk1/pp3ppp/2n1p3/3n4/1b1P4/2N2N2/PP2BPPP/R1BQ1RK1 w - - 0 10",
	"2r3k1/1q1nbppp/r3p3/3pP3/pPpP4/P1Q2N2/2RN1PPP/2R4K b - b3 0 23",
	"r4k2/pb2bp1r/1p1qp2p/3pNp2/3P1P2/2N3P1/PPP1Q2P/2KRR3 w - - 0 1",
	"r1b2rk1/2q1b1pp/p2ppn2/1p6/3QP3/1BN1B3/PPP3PP/R4RK1 w - - 0 1",
	"1k1r3q/1ppn3p/p4b2/4p3/8/P2N2P1/1PP1R1BP/2K1Q3 w - - 0 1",
	"3rr1k1/pp3pp1/1qn2np1/8/3p4/PP1R1P2/2P1NQPP/R1B3K1 b - - 0 1",
	"5rk1/1ppb3p/p1pb4/6q1/3P1p1r/2P1R2P/PP1BQ1P1/5RKN w - - 0 1",
	"8/7p/5k2/5p2/p1p2P2/Pr1pPK2/1P1R3P/8 b - - 0 1",
	"8/2p4P/8/kr6/6R1/8/8/1K6 w - - 0 1",
	"2kr3r/ppp1qppp/2n1bn2/2b1p3/4P3/2PP1N2/PP1NBPPP/R1BQ1RK1 w - - 3 9",
}

// TerminalRoots are roots without legal moves: fen, mated?
var TerminalRoots = []struct {
	Fen   string
	Mated bool
}{
	{"7k/5Q2/5K2/8/8/8/8/8 b - - 0 1", false},
	{"k7/2Q5/1K6/8/8/8/8/8 b - - 0 1", false},
	{"7k/6Q1/5K2/8/8/8/8/8 b - - 0 1", true},
	{"R6k/6pp/8/8/8/8/8/K7 b - - 0 1", true},
	{"rnb1kbnr/pppp1ppp/8/4p3/6Pq/5P2/PPPPP2P/RNBQKBNR w KQkq - 1 3", true},
	{"5k2/5P2/5K2/8/8/8/8/8 b - - 0 1", false},
	{"8/8/8/8/8/6k1/5q2/7K w - - 0 1", false},
	{"r1bqkb1r/pppp1Qpp/2n2n2/4p3/2B1P3/8/PPPP1PPP/RNB1K1NR b KQkq - 0 4", true},
	{"K7/8/1qk5/8/8/8/8/8 w - - 0 1", false},
	{"6rk/5Npp/8/8/8/8/8/K7 b - - 0 1", true},
}

// ValidateCorpus checks every corpus entry with the rules model.
func ValidateCorpus() error {
	for _, f := range Corpus {
		p, err := rules.ParseFen(f)
		if err != nil {
			return err
		}
		if !p.Sane() {
			return errInsane(f)
		}
		if p.Fen() != f {
			return errInsane("roundtrip " + f + " -> " + p.Fen())
		}
	}
	for _, tr := range TerminalRoots {
		p, err := rules.ParseFen(tr.Fen)
		if err != nil || !p.Sane() || len(p.LegalMoves()) != 0 || p.InCheck() != tr.Mated {
			return errInsane("terminal " + tr.Fen)
		}
	}
	return nil
}

type errInsane string

func (e errInsane) Error() string { return "corpus entry invalid: " + string(e) }

// Playout plays n random legal moves (seeded) from p and returns the moves played.
// It stops early at positions without legal moves.
func Playout(p *rules.Pos, n int, rng *PRNG) []string {
	var ms []string
	for i := 0; i < n; i++ {
		lm := p.LegalMoves()
		if len(lm) == 0 {
			break
		}
		m := lm[rng.Intn(len(lm))]
		ms = append(ms, m.String())
		p.PlayMove(m)
	}
	return ms
}

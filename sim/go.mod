module github.com/frankkopp/FrankyGo/verifsim

go 1.26

godebug randseednop=0

require (
	github.com/frankkopp/FrankyGo v0.0.0
	pgregory.net/rapid v1.3.0
)

replace github.com/frankkopp/FrankyGo => /repo

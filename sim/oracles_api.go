package verifsim

import (
	"fmt"
	"strings"

	"github.com/frankkopp/FrankyGo/internal/types"
	"github.com/frankkopp/FrankyGo/verifsim/rules"
)

// CheckApi evaluates the lifecycle invariants of C14 and the API-level
// halves of C05, C07 and C13 on an API-level run.
func CheckApi(sc *Scenario, out *ApiRunOut, res *RunResult) {
	c14 := hasGroup(sc.Checks, "c14")
	c05 := hasGroup(sc.Checks, "c05")
	c07 := hasGroup(sc.Checks, "c07")
	c13 := hasGroup(sc.Checks, "c13")
	stall := res.stallAllowanceNs(sc)
	perCheck := int64(sc.Cost.BaseNs) + int64(sc.Cost.JitterNs)
	stopBound := stopChecksBound*perCheck + stopSlackNs + stall

	if out.CtlPanic != "" {
		if strings.Contains(out.CtlPanic, "harness:") {
			res.Harness = out.CtlPanic
		} else if c14 {
			res.addViolation("C14", "controller_panic", out.CtlPanic)
		}
	}
	if out.Blocked != nil && c14 {
		b := out.Blocked
		state := "idle"
		if b.Active0 {
			state = "while a search was running"
		}
		res.addViolation("C14", "call_blocked:"+b.Op, fmt.Sprintf("lifecycle call %s issued %s at t=%dus did not return within its bound", b.Op, state, b.T0/1000))
	}

	// --- result stream ---------------------------------------------------
	type startInfo struct {
		call   int
		result int // index into out.Results, -1
	}
	var accepted []startInfo
	for i, c := range out.Calls {
		if c.Op == "start" && !c.Active0 && c.T1 >= 0 {
			accepted = append(accepted, startInfo{call: i, result: -1})
		}
		if c.Op == "start" && c.Active0 {
			res.probe("start_while_running")
			if c.T1 >= 0 {
				res.probe("rejected_start_returned")
			}
		}
	}
	for i := range accepted {
		if i < len(out.Results) {
			accepted[i].result = i
		}
	}
	finished := out.Blocked == nil && out.CtlPanic == ""
	if c14 && finished {
		if len(out.Results) != len(accepted) {
			res.addViolation("C14", "result_count_mismatch", fmt.Sprintf("%d accepted starts but %d results delivered", len(accepted), len(out.Results)))
		}
		for i, r := range out.Results {
			if r.Gen != i+1 {
				res.addViolation("C14", "result_order", fmt.Sprintf("result %d belongs to search generation %d", i+1, r.Gen))
				break
			}
		}
	}
	// results while idle / before start: every result must lie between its
	// start call's issue time and ... (order check above); additionally no
	// result may be delivered before the accepted start it is attributed to
	if c14 {
		for _, a := range accepted {
			if a.result < 0 {
				continue
			}
			r := out.Results[a.result]
			c := out.Calls[a.call]
			if r.T < c.T0 {
				res.addViolation("C14", "result_before_start", fmt.Sprintf("result at t=%dus precedes its start at t=%dus", r.T/1000, c.T0/1000))
			}
			// every result needs a cause: a stop request, the search's own
			// timer, a limit it can reach by itself (depth, nodes, mate), or a
			// root that is answered at once. A time-controlled search (also a
			// ponder search after ponderhit) that ends without any of these
			// was ended by something that does not belong to it.
			if c.Limits != nil && c.Root != nil {
				l := c.Limits
				selfEnding := l.Depth > 0 || l.Nodes > 0 || l.Mate > 0
				quickRoot := effectiveRootMoves(c.Root, l.Moves) <= 1 || rootExcluded(c.Root)
				stopped := false
				for j := a.call + 1; j < len(out.Calls); j++ {
					o := out.Calls[j]
					if o.T0 > r.T {
						break
					}
					if o.Op == "stop" || o.Op == "newgame" || o.Op == "final_stop" {
						stopped = true
					}
				}
				gen := r.Gen
				fired := gen < len(out.Sim.FiredGen) && out.Sim.FiredGen[gen]
				deep := false
				for _, it := range out.Iter {
					if it.Gen == gen && it.Depth >= 100 {
						deep = true // ran out of depth by itself (forced mates make deep iterations free)
					}
				}
				if !selfEnding && !quickRoot && !stopped && !fired && !deep && (l.TimeControlled() || l.needsStop()) {
					res.addViolation("C14", "result_without_cause", fmt.Sprintf("search on %s (%+v) delivered its result at t=%dus although no stop was requested, its own timer did not fire and it has no limit it could reach by itself", c.Root.Fen(), *l, r.T/1000))
				}
				res.count("result_causes_checked", 1)
			}
			// premature end of infinite / ponder searches
			if c.Limits != nil && c.Limits.needsStop() {
				var enderT int64 = -1
				for j := a.call + 1; j < len(out.Calls); j++ {
					o := out.Calls[j]
					if o.Op == "stop" || o.Op == "newgame" || o.Op == "final_stop" || (o.Op == "ponderhit" && c.Limits.Ponder && (c.Limits.TimeControlled())) {
						enderT = o.T0
						break
					}
				}
				if enderT < 0 || r.T < enderT {
					res.addViolation("C14", "premature_result", fmt.Sprintf("infinite/ponder search started at t=%dus delivered its result at t=%dus before any stop/ponderhit/new game (first such call at t=%dus)", c.T0/1000, r.T/1000, enderT/1000))
				}
			}
		}
	}
	if c14 {
		for _, f := range out.Sim.StaleFires {
			res.addViolation("C14", "stale_timer_fire", fmt.Sprintf("timer %d of an earlier search fired at t=%dus during search generation %d", f.Tok, f.T/1000, f.Gen))
			break
		}
		for _, c := range out.Calls {
			if c.Op == "is_searching" && c.T1 >= 0 {
				res.count("is_searching_checks", 1)
				if c.BoolRet != c.Active0 && !c.Window0 {
					res.addViolation("C14", "is_searching_wrong", fmt.Sprintf("IsSearching()=%v at t=%dus but search active=%v", c.BoolRet, c.T0/1000, c.Active0))
				}
			}
			if (c.Op == "stop" || c.Op == "newgame" || c.Op == "final_stop") && c.T1 >= 0 && c.Active0 {
				if c.T1-c.T0 > stopBound {
					res.addViolation("C14", "stop_not_prompt", fmt.Sprintf("%s took %dus (bound %dus)", c.Op, (c.T1-c.T0)/1000, stopBound/1000))
				}
				res.count("stops_of_running_search", 1)
			}
			if c.Op == "start" && c.Active0 && c.T1 >= 0 && c.T1-c.T0 > 1_000_000_000 {
				res.addViolation("C14", "rejected_start_slow", fmt.Sprintf("start while running returned after %dus", (c.T1-c.T0)/1000))
			}
		}
		if finished && (out.LeftTimers > 0 || out.LeftSearch) {
			res.addViolation("C14", "goroutine_leak", fmt.Sprintf("%d timer goroutines / search alive=%v two fake hours after the last stop", out.LeftTimers, out.LeftSearch))
		}
	}

	// a result must belong to its own search: a best move that is illegal in
	// this search's root but is the answer of the previous search is a
	// leftover of that search
	if c14 {
		prevBest := ""
		for _, f := range out.Final {
			c := out.Calls[f.Call]
			if c.Root != nil && len(c.Root.LegalMoves()) > 0 && f.Best != "NoMove" && !c.Root.IsLegal(f.Best) && f.Best == prevBest {
				res.addViolation("C14", "answered_by_earlier_result", fmt.Sprintf("search on %s answered with %s, the result of the previous search, which is not a legal move here", c.Root.Fen(), f.Best))
			}
			prevBest = f.Best
		}
	}

	// --- per search results (C05, C07 root half, C13) ------------------------
	for _, f := range out.Final {
		c := out.Calls[f.Call]
		if c.Root == nil || c.Limits == nil {
			continue
		}
		if c.FenBefore != c.FenAfter || c.KeyBefore != c.KeyAfter {
			if c05 {
				res.addViolation("C05", "position_modified", fmt.Sprintf("position handed to StartSearch changed from %q to %q", c.FenBefore, c.FenAfter))
			}
		}
		legal := c.Root.LegalMoves()
		if len(legal) == 0 {
			res.probe("terminal_root")
			if c07 {
				want := 0
				kind := "stalemate"
				if c.Root.InCheck() {
					want = -int(types.ValueCheckMate)
					kind = "mate"
				}
				if f.Value != want {
					res.addViolation("C07", "terminal_root_value", fmt.Sprintf("root %s is %s but search reports value %d", c.Root.Fen(), kind, f.Value))
				}
				res.count("terminal_root_checks", 1)
			}
			if c05 && f.Best != "NoMove" && !c.Root.IsLegal(f.Best) {
				res.addViolation("C05", "illegal_bestmove_terminal_root", fmt.Sprintf("root %s: best move %s", c.Root.Fen(), f.Best))
			}
			continue
		}
		excl := rootExcluded(c.Root)
		if c07 && f.Best == "NoMove" && !f.BookMove && (f.Value == -int(types.ValueCheckMate) || (f.Value == 0 && !excl)) {
			// a root with legal moves answered like a root without: no move and
			// the value of mate / stalemate
			res.addViolation("C07", "root_scored_terminal_with_legal_moves", fmt.Sprintf("root %s has %d legal moves (searchmoves %v) but the search reports no move and value %d", c.Root.Fen(), len(legal), l0(c.Limits), f.Value))
		}
		if c05 && !excl {
			res.count("c05_searches", 1)
			if !c.Root.IsLegal(f.Best) {
				res.addViolation("C05", "illegal_bestmove", fmt.Sprintf("root %s: best move %q", c.Root.Fen(), f.Best))
			} else {
				if f.Ponder != "NoMove" && f.Ponder != "" {
					q := c.Root.Clone()
					_ = q.Play(f.Best)
					if !q.IsLegal(f.Ponder) {
						res.addViolation("C05", "illegal_ponder", fmt.Sprintf("root %s: best %s ponder %q", c.Root.Fen(), f.Best, f.Ponder))
					}
				}
				if !f.BookMove {
					pv := strings.Fields(f.Pv)
					if len(pv) > 0 && !strings.EqualFold(pv[0], f.Best) {
						res.addViolation("C05", "pv_not_starting_with_bestmove", fmt.Sprintf("root %s: best %s pv %q", c.Root.Fen(), f.Best, f.Pv))
					}
					if bad := pvPlayable(c.Root, f.Pv); bad != "" {
						res.addViolation("C05", "unplayable_pv", fmt.Sprintf("root %s: %s in result pv %q", c.Root.Fen(), bad, f.Pv))
					}
				}
			}
		}
		if c13 && !excl && !f.BookMove {
			stopped := false
			for j := f.Call + 1; j < len(out.Calls); j++ {
				o := out.Calls[j]
				if o.Op == "start" && !o.Active0 {
					break
				}
				if (o.Op == "stop" || o.Op == "newgame" || o.Op == "final_stop") && o.Active0 {
					stopped = true
				}
			}
			l := c.Limits
			// the moves the search is restricted to: the listed moves that are
			// legal at the root; a list without any legal move restricts nothing
			var listed []string
			for _, m := range l.Moves {
				if c.Root.IsLegal(m) {
					listed = append(listed, m)
				}
			}
			if len(l.Moves) > 0 && len(listed) == 0 {
				res.probe("searchmoves_none_legal")
			}
			if len(listed) > 0 && len(listed) < len(l.Moves) {
				res.probe("searchmoves_partly_legal")
			}
			if l.Depth > 0 && !stopped && l.Nodes == 0 && !l.TimeControlled() && !l.needsStop() && len(legal) > 1 && len(listed) != 1 {
				res.count("depth_samples", 1)
				if f.Depth != l.Depth {
					res.addViolation("C13", "depth_not_exact", fmt.Sprintf("depth %d search on %s completed %d iterations", l.Depth, c.Root.Fen(), f.Depth))
				}
			}
			if l.Nodes > 0 {
				res.count("nodes_samples", 1)
				if f.Nodes > l.Nodes+uint64(len(legal))+nodesOvershootAdd {
					res.addViolation("C13", "nodes_overshoot", fmt.Sprintf("node limit %d on %s: %d nodes visited", l.Nodes, c.Root.Fen(), f.Nodes))
				}
			}
			if len(listed) > 0 {
				res.count("searchmoves_samples", 1)
				ok := false
				for _, m := range listed {
					if strings.EqualFold(m, f.Best) {
						ok = true
					}
				}
				if !ok {
					res.addViolation("C13", "searchmoves_ignored", fmt.Sprintf("searchmoves %v on %s: best move %s", l.Moves, c.Root.Fen(), f.Best))
				}
			}
		}
	}
	// iteration pv lines
	if c05 {
		for _, it := range out.Iter {
			// attribute to the accepted start of that generation
			if it.Gen-1 < 0 || it.Gen-1 >= len(accepted) {
				continue
			}
			c := out.Calls[accepted[it.Gen-1].call]
			if c.Root == nil || rootExcluded(c.Root) {
				continue
			}
			res.count("pv_lines_checked", 1)
			if bad := pvPlayable(c.Root, it.Pv); bad != "" {
				res.addViolation("C05", "unplayable_pv", fmt.Sprintf("root %s: %s in iteration pv %q", c.Root.Fen(), bad, it.Pv))
				break
			}
		}
	}
}

func l0(l *LimitSpec) []string {
	if l == nil {
		return nil
	}
	return l.Moves
}

// effectiveRootMoves is the number of root moves a search with this
// searchmoves list works on: the listed moves that are legal, or all legal
// moves when the list is empty or names no legal move.
func effectiveRootMoves(root *rules.Pos, list []string) int {
	n := 0
	seen := map[string]bool{}
	for _, m := range list {
		k := strings.ToLower(m)
		if !seen[k] && root.IsLegal(m) {
			seen[k] = true
			n++
		}
	}
	if n == 0 {
		return len(root.LegalMoves())
	}
	return n
}

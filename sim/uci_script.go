package verifsim

import (
	"fmt"
	"os"
	"regexp"
	"strings"

	"github.com/frankkopp/FrankyGo/verifsim/rules"
)

// guiPos tracks the position the GUI has (validly) set, on the rules model.
type guiPos struct {
	pos   *rules.Pos // current position (nil before first set)
	valid bool
}

// parsePositionCmd interprets a protocol-valid "position" command on the
// rules model. ok=false if the command is not valid (bad FEN, illegal move).
// prefix is the position after the longest legal prefix of the move list
// (nil if the start position itself is invalid).
func parsePositionCmd(line string) (full *rules.Pos, prefix *rules.Pos, ok bool) {
	tok := strings.Fields(line)
	if len(tok) < 2 || tok[0] != "position" {
		return nil, nil, false
	}
	i := 1
	var p *rules.Pos
	switch tok[i] {
	case "startpos":
		p = rules.MustFen(rules.StartFen)
		i++
	case "fen":
		i++
		j := i
		for j < len(tok) && tok[j] != "moves" {
			j++
		}
		if j-i != 6 {
			return nil, nil, false
		}
		q, err := rules.ParseFen(strings.Join(tok[i:j], " "))
		if err != nil || !q.Sane() {
			return nil, nil, false
		}
		p = q
		i = j
	default:
		return nil, nil, false
	}
	if i == len(tok) {
		return p, p, true
	}
	if tok[i] != "moves" {
		return nil, p, false
	}
	i++
	for ; i < len(tok); i++ {
		// the engine's notation is lower case from/to plus optional promotion letter
		if tok[i] != strings.ToLower(tok[i]) && len(tok[i]) != 5 {
			return nil, p, false
		}
		if err := p.Play(tok[i]); err != nil {
			return nil, p, false
		}
	}
	return p, p, true
}

// goInfo is the GUI's view of one go command.
type goInfo struct {
	Line      string
	InSeq     int // index into steps
	Limits    LimitSpec
	Root      *rules.Pos
	HistIndex int
}

// parseGoLine parses a protocol-valid go command.
func parseGoLine(line string) (LimitSpec, bool) {
	var l LimitSpec
	tok := strings.Fields(line)
	if len(tok) < 1 || tok[0] != "go" {
		return l, false
	}
	num := func(i int) (int64, bool) {
		if i >= len(tok) {
			return 0, false
		}
		var v int64
		_, err := fmt.Sscanf(tok[i], "%d", &v)
		return v, err == nil && fmt.Sprint(v) == tok[i]
	}
	for i := 1; i < len(tok); {
		switch tok[i] {
		case "infinite":
			l.Infinite = true
			i++
		case "ponder":
			l.Ponder = true
			i++
		case "searchmoves":
			i++
			for i < len(tok) && len(tok[i]) >= 4 && rules.ParseSq(tok[i][0:2]) >= 0 {
				l.Moves = append(l.Moves, tok[i])
				i++
			}
		case "depth", "nodes", "mate", "movetime", "wtime", "btime", "winc", "binc", "movestogo":
			v, ok := num(i + 1)
			if !ok {
				return l, false
			}
			switch tok[i] {
			case "depth":
				l.Depth = int(v)
			case "nodes":
				l.Nodes = uint64(v)
			case "mate":
				l.Mate = int(v)
			case "movetime":
				l.MoveTime = v
			case "wtime":
				l.WTime = v
			case "btime":
				l.BTime = v
			case "winc":
				l.WInc = v
			case "binc":
				l.BInc = v
			case "movestogo":
				l.MovesToGo = int(v)
			}
			i += 2
		default:
			return l, false
		}
	}
	return l, true
}

// needsStop reports whether a search with these limits only ends on stop
// (or ponderhit + time-out).
func (l *LimitSpec) needsStop() bool {
	return l.Infinite || l.Ponder
}

// UciRunOut is everything the oracles need from a scripted UCI run.
type UciRunOut struct {
	Hist []HistLine
	// StepIn[i] is the ordinal (0-based, among in-lines) of the line sent by step i (-1 if none).
	StepIn []int
	// PosChecks are the online position comparisons (plain build only).
	PosChecks []PosCheck
	// Waits are the outcomes of wait steps.
	Waits []WaitOutcome
	// LoopPanics are panics of the protocol loop goroutine, with the line that caused them.
	LoopPanics []LoopPanic
	EndPending bool // a go was still unanswered when the session was closed
	Faults     map[string]int
	Probes     map[string]int
	SigHash    uint64 // interleaving signature
	Arrivals   []string
	LeftTimers int  // timer goroutines still alive two fake hours after the session
	LeftSearch bool // search goroutine still alive
	CleanExit  bool
	Sim        *Sim
}

// PosCheck is one comparison of the engine's position with the expected one.
type PosCheck struct {
	Step   int
	Line   string
	Got    string
	Want   []string // acceptable FENs
	Before string
	// AfterSearch: comparison of the handler's position with the one set before the search
	AfterSearch bool
}

// WaitOutcome records how a wait step ended.
type WaitOutcome struct {
	Step     int
	Op       string
	Ok       bool
	WaitedNs int64
	// BudgetStop: a search limited only by depth/nodes (no time control) was
	// still running when the fake-time budget of the cost model ran out; the
	// GUI stopped it and the result arrived promptly. The property gives no
	// time bound for such a search, so this is not a termination failure.
	BudgetStop bool
}

// LoopPanic records a protocol loop panic.
type LoopPanic struct {
	Step int
	Line string
	Msg  string
}

// RunUciScript executes a scripted UCI session inside the current bubble.
func RunUciScript(sc *Scenario) *UciRunOut {
	sim := NewSim(sc.Seed, sc.Cost)
	sim.MonitorTerm = true
	SetCurrent(sim)
	defer SetCurrent(nil)
	out := &UciRunOut{Sim: sim, StepIn: make([]int, len(sc.Steps)), Faults: map[string]int{}, Probes: map[string]int{}, SigHash: 1469598103934665603}
	us := NewUciSession(sim)
	poll := sc.PollUs
	if poll <= 0 {
		poll = 50
	}

	wantBest, wantReady := 0, 0
	lastGo := ""
	hasDamaged := false
	for _, st := range sc.Steps {
		if st.Op == "damaged" {
			hasDamaged = true
		}
	}
	var prevHist []HistLine
	var gp guiPos
	gp.pos = rules.MustFen(rules.StartFen) // the engine starts on the start position
	gp.valid = true

	send := func(i int, line string) bool {
		ws := 0
		if i >= 0 && i < len(sc.Steps) && sc.Steps[i].Op == "send" && sc.Steps[i].Line == line {
			ws = sc.Steps[i].Ws
		}
		if ws > 0 {
			out.Probes["line_with_extra_white_space"]++
		}
		ok := us.SendWs(line, ws)
		if !ok {
			_, msg := us.LoopEnded()
			out.LoopPanics = append(out.LoopPanics, LoopPanic{Step: i, Line: clip(line, 200), Msg: msg})
			us.RestartLoop()
			return false
		}
		return true
	}
	// settle lets the loop goroutine finish the command(s) just handed over:
	// they run in the GUI's instant; one lattice step later they are done
	// unless they block.
	settle := func() { sim.ActorSleep(offGUI, 1) }
	checkLoop := func(i int, line string) {
		if ended, msg := us.LoopEnded(); ended {
			out.LoopPanics = append(out.LoopPanics, LoopPanic{Step: i, Line: clip(line, 200), Msg: msg})
			us.RestartLoop()
		}
	}

	for i := range sc.Steps {
		st := &sc.Steps[i]
		out.StepIn[i] = -1
		if simExhausted(sim) {
			break
		}
		sim.ActorSleep(offGUI, st.GapUs*1000)
		switch st.Op {
		case "send", "damaged":
			before := ""
			tok := strings.Fields(st.Line)
			isPos := len(tok) > 0 && tok[0] == "position"
			if us.Plain && (isPos || st.Op == "damaged") {
				before = us.PositionFen()
			}
			if st.Op == "send" && len(tok) > 0 && tok[0] == "go" {
				// relative accounting: a damaged go may or may not have been answered
				b, _, _ := us.Counts()
				wantBest = b + 1
				lastGo = st.Line
			}
			if len(tok) > 0 && tok[0] == "isready" && st.Op == "send" {
				_, r, _ := us.Counts()
				wantReady = r + 1
			}
			nIn := countIn(us)
			out.noteArrival(sim, us, st, tok, i > 0 && st.GapUs == 0)
			if !send(i, st.Line) {
				continue
			}
			out.StepIn[i] = nIn
			// the GUI's own view of the position it has set
			if st.Op == "send" && isPos {
				if full, _, ok := parsePositionCmd(st.Line); ok {
					gp.pos, gp.valid = full, true
				} else {
					gp.valid = false
				}
			}
			if st.Op == "send" && len(tok) > 0 && tok[0] == "ucinewgame" {
				gp.pos, gp.valid = rules.MustFen(rules.StartFen), true
			}
			if st.Op == "damaged" {
				gp.valid = false
			}
			// bursts: following steps with gap 0 are delivered back to back
			if i+1 < len(sc.Steps) && sc.Steps[i+1].GapUs == 0 && (sc.Steps[i+1].Op == "send" || sc.Steps[i+1].Op == "damaged") {
				continue
			}
			settle()
			checkLoop(i, st.Line)
			if us.Plain && st.Op == "send" && isPos {
				full, _, ok := parsePositionCmd(st.Line)
				if ok {
					out.PosChecks = append(out.PosChecks, PosCheck{Step: i, Line: clip(st.Line, 300), Got: us.PositionFen(), Want: []string{full.Fen()}, Before: before})
				}
			}
			if us.Plain && st.Op == "damaged" {
				// the engine must still hold a well-formed position: either the
				// one it had, or (for a position command) start + legal prefix
				want := []string{before}
				if len(tok) > 0 && tok[0] == "position" {
					// acceptable: the position held before, or a COMPLETE reading
					// of the line (strict, or lenient: missing fen fields get
					// defaults, surplus fields are ignored, a move may be found
					// inside a token with stray bytes). A position made of only a
					// prefix of the listed moves was never validly set.
					full, _, ok := parsePositionCmd(st.Line)
					if ok && full != nil {
						want = append(want, full.Fen())
					}
					want = append(want, tolerantPositions(st.Line)...)
					if castlingUnrelatedToBoard(st.Line) {
						// the rules do not say how a castling right without king
						// or rook on the home square is to be read (the engine
						// trusts it); what such a line leaves behind is only
						// required to be a well-formed position
						if g, err := rules.ParseFen(us.PositionFen()); err == nil && g.HasKings() {
							out.Probes["damaged_position_with_unrelated_castling_rights"]++
							want = append(want, us.PositionFen())
						}
					}
				}
				if len(tok) > 0 && tok[0] == "ucinewgame" {
					want = append(want, rules.StartFen)
				}
				out.PosChecks = append(out.PosChecks, PosCheck{Step: i, Line: clip(st.Line, 300), Got: us.PositionFen(), Want: want, Before: before})
			}
		case "wait_best", "wait_ready":
			max := st.MaxMs
			if max <= 0 {
				max = 1000
			}
			start := sim.Now()
			ok := false
			for {
				b, r, _ := us.Counts()
				if st.Op == "wait_best" && b >= wantBest {
					ok = true
					break
				}
				if st.Op == "wait_ready" && r >= wantReady {
					ok = true
					break
				}
				waited := sim.Now() - start
				if waited > max*1_000_000 || simExhausted(sim) {
					break
				}
				// adaptive polling: reaction latency at most 0.5% of the time waited
				step := waited / 200
				if step < poll*1000 {
					step = poll * 1000
				}
				if step > 2_000_000 {
					step = 2_000_000
				}
				sim.ActorSleep(offGUI, step)
			}
			wo := WaitOutcome{Step: i, Op: st.Op, Ok: ok, WaitedNs: sim.Now() - start}
			if st.Op == "wait_best" && !ok && !simExhausted(sim) {
				if l, pok := parseGoLine(lastGo); pok && l.MoveTime == 0 && l.WTime == 0 && l.BTime == 0 && !l.Infinite && !l.Ponder && (l.Depth > 0 || l.Nodes > 0 || l.Mate > 0) {
					if send(i, "stop") {
						settle()
						for k := 0; k < 400; k++ {
							if b, _, _ := us.Counts(); b >= wantBest {
								wo.BudgetStop = true
								out.Probes["budget_stop_of_depth_or_nodes_search"]++
								break
							}
							sim.ActorSleep(offGUI, 5_000_000)
						}
					}
				}
			}
			ok = ok || wo.BudgetStop
			out.Waits = append(out.Waits, wo)
			if ok && st.Op == "wait_best" && us.Plain && gp.valid && !hasDamaged {
				// the position handed to the search is left unchanged
				out.PosChecks = append(out.PosChecks, PosCheck{Step: i, Line: "(after search)", Got: us.PositionFen(), Want: []string{gp.pos.Fen()}, AfterSearch: true})
			}
			if st.Op == "wait_best" && !ok {
				// resynchronise so that later accounting stays meaningful
				b, _, _ := us.Counts()
				wantBest = b
				out.EndPending = true
			}
			if st.Op == "wait_ready" && !ok {
				_, r, _ := us.Counts()
				wantReady = r
			}
		case "fresh_engine":
			// end this engine (stop, quit) and continue with a brand-new handler
			if send(i, "stop") {
				settle()
			}
			for k := 0; k < 400; k++ {
				b, _, _ := us.Counts()
				if b >= wantBest {
					break
				}
				sim.ActorSleep(offGUI, 5_000_000)
			}
			if send(i, "quit") {
				settle()
			}
			DrainEngine(sim, offGUI)
			prev := us.History()
			prevHist = append(prevHist, prev...)
			prevHist = append(prevHist, HistLine{Seq: len(prevHist) + 1, T: sim.Now(), In: true, Text: "#fresh_engine"})
			us = NewUciSession(sim)
			wantBest, wantReady = 0, 0
			gp.pos, gp.valid = rules.MustFen(rules.StartFen), true
		case "sleep":
			// gap only
		}
	}

	// Close the session: stop whatever is running, give it 2 fake seconds.
	sim.ActorSleep(offGUI, 1000)
	if send(len(sc.Steps), "stop") {
		settle()
	}
	for k := 0; k < 400; k++ {
		b, _, _ := us.Counts()
		if b >= wantBest {
			break
		}
		sim.ActorSleep(offGUI, 5_000_000)
	}
	if b, _, _ := us.Counts(); b < wantBest {
		out.EndPending = true
	}
	checkLoop(len(sc.Steps), "stop")
	out.Hist = append(prevHist, us.History()...)
	for i := range out.Hist {
		out.Hist[i].Seq = i + 1
	}
	if send(len(sc.Steps)+1, "quit") {
		settle()
		ended, _ := us.LoopEnded()
		out.CleanExit = ended && !out.EndPending
	}
	out.LeftTimers, out.LeftSearch = DrainEngine(sim, offGUI)
	return out
}

// DrainEngine waits (in fake time) until all timer goroutines and the search
// goroutine have ended: the bubble's clock stops when its main goroutine
// returns, so sleeping engine goroutines must be given time to finish.
// Returns what is still alive after two fake hours.
func DrainEngine(sim *Sim, off int) (timers int, searching bool) {
	step := int64(1_000_000)
	var waited int64
	for (simTimers(sim) > 0 || simSearching(sim)) && waited < 2*3600*1_000_000_000 {
		sim.ActorSleep(off, step)
		waited += step
		if step < 1_000_000_000 {
			step *= 2
		}
	}
	return simTimers(sim), simSearching(sim)
}

//go:norace
func simTimers(s *Sim) int { return s.TimersLive }

//go:norace
func simExhausted(s *Sim) bool { return s.Exhausted }

//go:norace
func simSearching(s *Sim) bool { return s.SearchActive }

// tolerantPositions returns the positions a lenient parser may read out of
// a damaged "position fen ..." line: the first up to six fen fields (missing
// ones defaulted), followed by the whole or the legal prefix of the moves.
func tolerantPositions(line string) []string {
	// two notions of white space: Unicode (strings.Fields) and ASCII only
	out := tolerantPositionsTok(strings.Fields(line))
	ascii := strings.FieldsFunc(line, func(r rune) bool { return r == ' ' || r == '\t' || r == '\n' || r == '\f' || r == '\r' || r == '\v' })
	out = append(out, tolerantPositionsTok(ascii)...)
	// (the regexp class \s: without vertical tab)
	re := strings.FieldsFunc(line, func(r rune) bool { return r == ' ' || r == '\t' || r == '\n' || r == '\f' || r == '\r' })
	return append(out, tolerantPositionsTok(re)...)
}

func tolerantPositionsTok(tok []string) []string {
	if len(tok) < 2 || tok[0] != "position" {
		return nil
	}
	// a lenient reader may ignore everything from a second "moves" keyword on
	seenMoves := false
	for k, t := range tok {
		if t == "moves" {
			if seenMoves {
				tok = tok[:k]
				break
			}
			seenMoves = true
		}
	}
	var starts []*rules.Pos
	j := 2
	switch tok[1] {
	case "startpos":
		starts = append(starts, rules.MustFen(rules.StartFen))
	case "fen":
		for j < len(tok) && tok[j] != "moves" {
			j++
		}
		for n := 1; n <= 6 && 2+n <= j; n++ {
			if p, err := rules.ParseFen(strings.Join(tok[2:2+n], " ")); err == nil {
				starts = append(starts, p)
			}
		}
	default:
		return nil
	}
	var out []string
	for _, p := range starts {
		if j >= len(tok) {
			out = append(out, p.Fen())
			continue
		}
		if tok[j] == "moves" {
			q := p.Clone()
			complete := true
			for _, m := range tok[j+1:] {
				if q.Play(m) != nil {
					// a lenient reader may find the move inside a token with stray bytes
					sub := reMoveInToken.FindString(strings.ToLower(m))
					if sub == "" || q.Play(sub) != nil {
						complete = false
						break
					}
				}
			}
			if complete {
				out = append(out, q.Fen())
			}
		}
	}
	return out
}

// castlingUnrelatedToBoard reports whether some reading of the fen of a
// position command carries a castling right without king or rook at home.
func castlingUnrelatedToBoard(line string) bool {
	tok := strings.Fields(line)
	if len(tok) < 3 || tok[0] != "position" || tok[1] != "fen" {
		return false
	}
	j := 2
	for j < len(tok) && tok[j] != "moves" {
		j++
	}
	for n := 1; n <= 6 && 2+n <= j; n++ {
		if p, err := rules.ParseFen(strings.Join(tok[2:2+n], " ")); err == nil && !p.CastlingFitsBoard() {
			return true
		}
	}
	return false
}

var reMoveInToken = regexp.MustCompile(`[a-h][1-8][a-h][1-8][nbrq]?`)

func countIn(us *UciSession) int { return us.tr.inCount() }

func clip(s string, n int) string {
	if len(s) > n {
		return s[:n] + "..."
	}
	return s
}

// Search phases used for the interleaving signature.
const (
	phIdle      = iota
	phJustEnded // < 5 fake ms after the previous search ended
	phIter1
	phIterLow  // iterations 2-3
	phIterHigh // deeper
	phBusyWait
)

//go:norace
func simPhase(s *Sim, iter int) int {
	if s.SearchActive {
		if s.BusyWaiting {
			return phBusyWait
		}
		switch {
		case iter <= 1:
			return phIter1
		case iter <= 3:
			return phIterLow
		}
		return phIterHigh
	}
	if s.LastEndT > 0 && s.Now()-s.LastEndT < 5_000_000 {
		return phJustEnded
	}
	return phIdle
}

// noteArrival classifies the moment a command reaches the engine: search
// phase and number of live timers. It feeds the interleaving signature and
// the fault/probe counters (a fault counts only when it actually fires).
func (out *UciRunOut) noteArrival(sim *Sim, us *UciSession, st *Step, tok []string, burst bool) {
	if len(tok) == 0 {
		return
	}
	ph := simPhase(sim, us.tr.iterNow())
	tl := simTimers(sim)
	if tl > 3 {
		tl = 3
	}
	kind := tok[0]
	h := out.SigHash
	for _, c := range []byte(kind) {
		h = (h ^ uint64(c)) * 1099511628211
	}
	h = (h ^ uint64(ph)) * 1099511628211
	h = (h ^ uint64(tl)) * 1099511628211
	out.SigHash = h
	if debugArrivals {
		out.Arrivals = append(out.Arrivals, fmt.Sprintf("%d %s ph=%d tl=%d", sim.Now(), kind, ph, tl))
	}
	active := ph >= phIter1
	switch kind {
	case "stop":
		if active {
			out.Faults["F1_cancel_running"]++
			switch ph {
			case phIter1:
				out.Probes["stop_in_iteration_1"]++
			case phBusyWait:
				out.Probes["stop_in_busy_wait"]++
			}
		}
	case "go":
		if ph == phJustEnded {
			out.Faults["F4_go_within_5ms_of_result"]++
		}
		if tl > 0 {
			out.Probes["timer_alive_at_next_go"]++
		}
		if burst {
			out.Faults["F4_burst"]++
		}
	case "ponderhit":
		if active {
			out.Faults["F5_ponderhit_running"]++
			if ph == phBusyWait {
				out.Probes["ponderhit_after_internal_completion"]++
			}
		} else {
			out.Faults["F5_ponderhit_idle"]++
		}
	case "isready":
		if active {
			out.Probes["isready_mid_search"]++
		}
	}
	if st.Op == "damaged" {
		out.Faults["F7_damaged_line"]++
	}
}

var debugArrivals = os.Getenv("VERIF_DEBUG_ARRIVALS") != ""

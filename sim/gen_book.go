package verifsim

import (
	"os"
	"sort"
	"strconv"
	"strings"

	"github.com/frankkopp/FrankyGo/verifsim/rules"
)

func envInt(name string, def int64) int64 {
	if v := os.Getenv(name); v != "" {
		if n, err := strconv.ParseInt(v, 10, 64); err == nil {
			return n
		}
	}
	return def
}

// promotionGames are short legal games from the start position that contain a promotion.
var promotionGames = [][]string{
	{"h2h4", "g7g5", "h4g5", "h7h6", "g5h6", "g8f6", "h6h7", "f6g8", "h7g8q"},
	{"a2a4", "b7b5", "a4b5", "a7a6", "b5a6", "c8b7", "a6b7", "b8c6", "b7a8n"},
}

// genGames draws a game collection with many shared prefixes, transpositions and duplicates.
func genGames(rng *PRNG, n, maxPlies, branch int) [][]string {
	var games [][]string
	for i := 0; i < n; i++ {
		if len(games) > 0 && rng.Intn(8) == 0 {
			// duplicate game
			games = append(games, append([]string{}, games[rng.Intn(len(games))]...))
			continue
		}
		if rng.Intn(40) == 0 {
			games = append(games, append([]string{}, promotionGames[rng.Intn(len(promotionGames))]...))
			continue
		}
		p := rules.MustFen(rules.StartFen)
		plies := rng.Range(1, maxPlies)
		var g []string
		if rng.Intn(12) == 0 {
			// a game that comes back to the initial position (knights out and home again)
			sh := [][]string{{"g1f3", "g8f6", "f3g1", "f6g8"}, {"b1c3", "b8c6", "c3b1", "c6b8"}, {"g1h3", "b8a6", "h3g1", "a6b8"}}
			for k := rng.Range(1, 2); k > 0; k-- {
				for _, m := range sh[rng.Intn(len(sh))] {
					g = append(g, m)
					_ = p.Play(m)
				}
			}
		}
		for k := 0; k < plies; k++ {
			lm := p.LegalMoves()
			if len(lm) == 0 {
				break
			}
			sort.Slice(lm, func(a, b int) bool { return lm[a].String() < lm[b].String() })
			var m rules.Move
			if rng.Intn(6) == 0 {
				m = lm[rng.Intn(len(lm))]
			} else {
				// few choices per position: forces shared prefixes and transpositions
				pick := (rng.Intn(branch) * 7) % len(lm)
				m = lm[pick]
			}
			g = append(g, m.String())
			p.PlayMove(m)
		}
		games = append(games, g)
	}
	return games
}

// cornerBookGames: game prefixes from the initial position after which a
// particular move is illegal for a reason that a short-cut legality test
// tends to forget (validated with the rules model when used).
var cornerBookGames = []struct{ prefix, illegal string }{
	// en passant capture that removes both pawns from the rank between king and queen
	{"e2e4 c7c6 e4e5 d8a5 e1e2 a7a6 e2e3 b7b6 e3f4 g7g6 f4g5 d7d5", "e5d6"},
	{"c2c3 e7e5 d1a4 e5e4 a2a3 e8e7 b2b3 e7e6 g2g3 e6f5 c1b2 f5g4 d2d4", "e4d3"},
	// castling through an attacked square / out of check / into check
	{"e2e4 b7b6 g2g3 c8a6 f1g2 e7e6 g1f3 d7d6", "e1g1"},
	{"e2e4 e7e5 g1f3 d7d6 f1c4 c8g4 d2d3 g4f3 g2f3 d8g5 c1e3 g5g2", "e1g1"},
	{"g1f3 c7c6 g2g3 d7d5 f1g2 g8f6 d2d4 d8a5", "e1g1"},
	// pinned piece moving off the line
	{"e2e4 e7e6 d2d4 d7d5 b1c3 f8b4", "c3d5"},
	// king stepping next to the other king / onto a square attacked through itself
	{"e2e4 e7e5 e1e2 e8e7 e2e3 e7e6 e3f3 e6f6 f3g4 f6g6 h2h4 h7h5", "g4g5"},
	{"e2e4 d7d5 e4d5 d8d5 b1c3 d5e5", "e1e2"},
}

var badTokens = []string{"e2e5", "a1a1", "h7h5", "e1e8", "b1c4", "d2d5"}

// unreadableTokens are no moves in any of the formats.
var unreadableTokens = []string{"g1i3", "0000", "zzzz", "xx", "i9"} // (no move hidden inside: a lenient reader may find one in a token like e9e4)

// GenBook generates a book build scenario (C19).
func GenBook(seed uint64) *Scenario {
	rng := NewPRNG(seed, "book")
	sc := &Scenario{Prop: "C19", Kind: "book", Seed: seed, Checks: []string{"c19"}, Cost: CostModel{Every: 1, BaseNs: 1000}}
	bs := &BookSpec{Format: "all", Decor: rng.Uint64(), Strategy: rng.Intn(BookStrategies)}
	n := int(rng.LogRange(1, 150))
	bs.Games = genGames(rng, n, rng.Range(2, 30), rng.Range(1, 4))
	// adversity: an illegal (but well-formed) move in the middle of a line
	for gi, g := range bs.Games {
		if rng.Intn(10) == 0 {
			at := rng.Intn(len(g) + 1)
			tok := badTokens[rng.Intn(len(badTokens))]
			// make sure the token really is illegal at that point
			p := rules.MustFen(rules.StartFen)
			for i := 0; i < at; i++ {
				_ = p.Play(g[i])
			}
			if rng.Chance(0.2) {
				// not a move at all: the line still contributes its prefix only
				tok = unreadableTokens[rng.Intn(len(unreadableTokens))]
			} else if ill := p.PseudoIllegalMoves(); len(ill) > 0 && rng.Chance(0.6) {
				// a move that obeys the piece's movement rule but leaves the king in check
				tok = ill[rng.Intn(len(ill))].String()
			}
			if !p.IsLegal(tok) {
				bs.Bad = append(bs.Bad, BadMove{Game: gi, At: at, Token: tok})
			}
		}
	}
	if rng.Intn(100) < 3 {
		// one very long game (longer than any recorded game, still within the
		// 640 plies the engine's move history holds - see DESIGN.md)
		p := rules.MustFen(rules.StartFen)
		if g := Playout(p, rng.Range(450, 600), rng); len(g) >= 450 {
			bs.Games = append(bs.Games, g)
		}
	}
	if rng.Intn(100) < 15 {
		// a game that reaches one of the classic corners of the legality rules
		// and continues with the move that is illegal exactly there
		cg := cornerBookGames[rng.Intn(len(cornerBookGames))]
		pre := strings.Fields(cg.prefix)
		p := rules.MustFen(rules.StartFen)
		okc := true
		for _, m := range pre {
			if p.Play(m) != nil {
				okc = false
				break
			}
		}
		if okc && !p.IsLegal(cg.illegal) {
			g := append(append([]string{}, pre...), Playout(p, rng.Intn(4), rng)...)
			bs.Games = append(bs.Games, g)
			bs.Bad = append(bs.Bad, BadMove{Game: len(bs.Games) - 1, At: len(pre), Token: cg.illegal})
		}
	}
	ns := rng.Range(2, 4)
	for i := 0; i < ns; i++ {
		bs.SchedSeeds = append(bs.SchedSeeds, rng.Uint64()%1_000_000)
	}
	sc.Book = bs
	return sc
}

// GenCache generates a cache scenario (C20).
func GenCache(seed uint64) *Scenario {
	rng := NewPRNG(seed, "cache")
	sc := &Scenario{Prop: "C20", Kind: "cache", Seed: seed, Checks: []string{"c20"}, Cost: CostModel{Every: 1, BaseNs: 1000}}
	bs := &BookSpec{Format: "Simple"}
	var n int
	switch rng.Intn(4) {
	case 0:
		n = rng.Range(1, 3)
	case 1:
		n = rng.Range(3, 20)
	case 2:
		n = rng.Range(20, 120)
	default:
		n = rng.Range(1, 8)
	}
	bs.Games = genGames(rng, n, rng.Range(1, 24), rng.Range(1, 4))
	large := rng.Intn(100) == 0
	if large {
		// a large book (thousands of positions): an encoder that writes in
		// several messages only does so for big books
		bs.Games = genGames(rng, rng.Range(400, 900), rng.Range(20, 36), 40)
	}
	// drop promotion games (the coordinate format cannot express them)
	var gs [][]string
	for _, g := range bs.Games {
		ok := true
		for _, m := range g {
			if len(m) == 5 {
				ok = false
			}
		}
		if ok {
			gs = append(gs, g)
		}
	}
	if len(gs) == 0 {
		gs = [][]string{{"e2e4"}}
	}
	bs.Games = gs
	// every crash point of the save for small books
	bs.AllPrefixes = n <= 8
	kinds := []string{"truncate", "truncate", "flip", "flip", "flip", "garbage", "empty", "missing", "dir", "fulldisk", "append", "zerofill"}
	k := rng.Range(6, 30)
	if large {
		k = 4
	}
	for i := 0; i < k; i++ {
		bs.Damage = append(bs.Damage, CacheDamage{Kind: kinds[rng.Intn(len(kinds))], At: rng.Intn(1 << 20), Bit: rng.Intn(8), Len: rng.Intn(4096)})
	}
	sc.Book = bs
	return sc
}

package verifsim

import (
	"bytes"
	"encoding/gob"
	"fmt"
	"os"
	"path/filepath"
	"sort"
	"strings"
	"time"

	"github.com/frankkopp/FrankyGo/internal/movegen"
	"github.com/frankkopp/FrankyGo/internal/openingbook"
	"github.com/frankkopp/FrankyGo/internal/position"

	"github.com/frankkopp/FrankyGo/verifsim/rules"
)

// ---------------------------------------------------------------------------
// rendering of game collections in the three book formats
// ---------------------------------------------------------------------------

// gameTokens returns the tokens of one game: its moves with the adversity
// tokens (illegal / unreadable moves) inserted. legalPrefix is the number of
// leading moves that count.
func gameTokens(bs *BookSpec, gi int) (tokens []string, legalPrefix int) {
	g := bs.Games[gi]
	legalPrefix = len(g)
	bad := map[int]string{}
	for _, b := range bs.Bad {
		if b.Game == gi && b.At <= len(g) {
			bad[b.At] = b.Token
			if b.At < legalPrefix {
				legalPrefix = b.At
			}
		}
	}
	for i := 0; i <= len(g); i++ {
		if t, ok := bad[i]; ok {
			tokens = append(tokens, "\x00"+t) // marker: adversity token
		}
		if i < len(g) {
			tokens = append(tokens, g[i])
		}
	}
	return tokens, legalPrefix
}

func renderSimple(bs *BookSpec) string {
	var sb strings.Builder
	for gi := range bs.Games {
		toks, _ := gameTokens(bs, gi)
		var out []string
		for _, t := range toks {
			out = append(out, strings.TrimPrefix(t, "\x00"))
		}
		// the shipped books write the moves of a line without separators
		sep := " "
		if bs.Decor&(1<<40) != 0 {
			sep = ""
		}
		sb.WriteString(strings.Join(out, sep))
		sb.WriteString("\n")
	}
	return sb.String()
}

// sanTokens converts the legal prefix to SAN (adversity tokens stay as they are).
func sanTokens(bs *BookSpec, gi int, decorate *PRNG) []string {
	toks, _ := gameTokens(bs, gi)
	p := rules.MustFen(rules.StartFen)
	var out []string
	ok := true
	for _, t := range toks {
		if strings.HasPrefix(t, "\x00") {
			if m, isPseudo := p.ParsePseudo(t[1:]); ok && isPseudo && !p.IsLegal(t[1:]) {
				// an illegal move that looks like a move: written the way the
				// legal moves are written
				out = append(out, strings.TrimRight(p.San(m), "+#"))
			} else if k := p.KingSq(0); ok && p.WhiteTo && k == 4 && (t[1:] == "e1g1" || t[1:] == "e1c1") {
				out = append(out, map[string]string{"e1g1": "O-O", "e1c1": "O-O-O"}[t[1:]])
			} else if k := p.KingSq(1); ok && !p.WhiteTo && k == 60 && (t[1:] == "e8g8" || t[1:] == "e8c8") {
				out = append(out, map[string]string{"e8g8": "O-O", "e8c8": "O-O-O"}[t[1:]])
			} else {
				out = append(out, t[1:])
			}
			ok = false // everything after the first bad token is beyond the legal prefix
			continue
		}
		if !ok {
			// moves after a bad token: keep them readable but they do not count
			out = append(out, t)
			continue
		}
		m, legal := p.ParseMove(t)
		if !legal {
			out = append(out, t)
			ok = false
			continue
		}
		s := p.San(m)
		if decorate != nil && decorate.Intn(12) == 0 {
			s += []string{"!", "?", "!?", "!!"}[decorate.Intn(4)]
		}
		out = append(out, s)
		p.PlayMove(m)
	}
	return out
}

func numbered(toks []string) string {
	var sb strings.Builder
	for i, t := range toks {
		if i%2 == 0 {
			fmt.Fprintf(&sb, "%d. ", i/2+1)
		}
		sb.WriteString(t)
		sb.WriteString(" ")
	}
	return strings.TrimSpace(sb.String())
}

func renderSan(bs *BookSpec) string {
	var sb strings.Builder
	for gi := range bs.Games {
		toks := sanTokens(bs, gi, nil)
		if len(toks) == 0 {
			sb.WriteString("\n")
			continue
		}
		sb.WriteString(numbered(toks))
		sb.WriteString(" 1/2-1/2\n")
	}
	return sb.String()
}

func renderPgn(bs *BookSpec) string {
	dec := NewPRNG(bs.Decor, "pgn")
	var sb strings.Builder
	results := []string{"1-0", "0-1", "1/2-1/2", "*"}
	for gi := range bs.Games {
		toks := sanTokens(bs, gi, dec)
		res := results[dec.Intn(4)]
		fmt.Fprintf(&sb, "[Event \"Game %d\"]\n[Site \"?\"]\n[White \"W%d\"]\n[Black \"B%d\"]\n[Result \"%s\"]\n", gi+1, dec.Intn(100), dec.Intn(100), res)
		if dec.Intn(3) == 0 {
			fmt.Fprintf(&sb, "[ECO \"A%02d\"]\n", dec.Intn(100))
		}
		sb.WriteString("\n")
		if len(toks) == 0 {
			sb.WriteString(res + "\n\n")
			continue
		}
		// move text with decorations
		var parts []string
		// engine/clock annotations after every move, the comment broken over
		// two lines (as written by servers that export wrapped move text)
		clk := dec.Intn(6) == 0
		for i, t := range toks {
			if i%2 == 0 {
				if dec.Intn(2) == 0 {
					parts = append(parts, fmt.Sprintf("%d.", i/2+1), t)
				} else {
					parts = append(parts, fmt.Sprintf("%d.%s", i/2+1, t))
				}
			} else {
				parts = append(parts, t)
			}
			if clk {
				parts = append(parts, fmt.Sprintf("{ [%%eval 0.%02d]\n[%%clk 0:0%d:%02d] }", dec.Intn(100), dec.Intn(10), dec.Intn(60)))
				continue
			}
			switch dec.Intn(14) {
			case 0:
				parts = append(parts, "{a comment with (parens) and 12. fake moves}")
			case 3:
				// parentheses inside a comment need not balance
				parts = append(parts, []string{"{:( }", "{:) }", "{a) the first idea}", "{better (see game 12}", "{1) e4 2) d4}"}[dec.Intn(5)])
			case 1:
				parts = append(parts, fmt.Sprintf("$%d", dec.Range(1, 139)))
			case 2:
				// variation, possibly nested
				v := fmt.Sprintf("( %d... Nf6 %d. Nc3 )", i/2+1, i/2+2)
				if i%2 == 1 {
					v = fmt.Sprintf("( %d... a6 ( %d... h6 {nested} ) %d. a3 )", i/2+1, i/2+1, i/2+2)
				}
				parts = append(parts, v)
			}
		}
		parts = append(parts, res)
		// decorations are self-delimiting tokens: PGN allows them to abut the
		// moves around them without white space ("Nf3{c}Nc6", "c4$1 e6")
		glued := parts[:0:0]
		for i := 0; i < len(parts); i++ {
			pt := parts[i]
			isDeco := strings.HasPrefix(pt, "{") || strings.HasPrefix(pt, "$")
			if isDeco && len(glued) > 0 && dec.Intn(3) == 0 && !strings.HasSuffix(glued[len(glued)-1], ".") {
				// glue to the token before
				glued[len(glued)-1] += pt
				// and, for brace comments, sometimes also to the move after it
				if strings.HasPrefix(pt, "{") && i+1 < len(parts) && dec.Intn(2) == 0 {
					nx := parts[i+1]
					if len(nx) > 0 && (nx[0] >= 'A' && nx[0] <= 'Z' || nx[0] >= 'a' && nx[0] <= 'h') && nx != res {
						glued[len(glued)-1] += nx
						i++
					}
				}
				continue
			}
			glued = append(glued, pt)
		}
		parts = glued
		// wrap lines; a ";" comment may end a line
		line := ""
		for _, pt := range parts {
			if len(line)+len(pt) > 70 {
				if dec.Intn(8) == 0 {
					line += " ; rest of line comment"
				}
				sb.WriteString(strings.TrimSpace(line) + "\n")
				line = ""
			}
			line += pt + " "
		}
		sb.WriteString(strings.TrimSpace(line) + "\n\n")
	}
	return sb.String()
}

// ---------------------------------------------------------------------------
// reference book: sequential replay of the same games
// ---------------------------------------------------------------------------

type refBook struct {
	counter map[uint64]int
	root    uint64
}

// buildRef counts, per position (identified by the engine's position key —
// trusted base, see level_note), how often the games visit it. Legality and
// the legal prefix of each line are decided by the rules model.
func buildRef(bs *BookSpec, simpleFormat bool) (*refBook, error) {
	rb := &refBook{counter: map[uint64]int{}}
	start := position.NewPosition()
	rb.root = uint64(start.ZobristKey())
	rb.counter[rb.root] = 0
	mg := movegen.NewMoveGen()
	for gi, g := range bs.Games {
		toks, prefix := gameTokens(bs, gi)
		if len(toks) == 0 {
			continue
		}
		rb.counter[rb.root]++
		p := position.NewPosition()
		rp := rules.MustFen(rules.StartFen)
		for i := 0; i < prefix && i < len(g); i++ {
			m, ok := rp.ParseMove(g[i])
			if !ok {
				break
			}
			if simpleFormat && m.Promo != 0 {
				// what a reader without promotion letters sees: the line ends here
				break
			}
			em := mg.GetMoveFromUci(p, g[i])
			if !em.IsValid() {
				return nil, fmt.Errorf("engine rejects legal move %s in %s", g[i], p.StringFen())
			}
			p.DoMove(em)
			rp.PlayMove(m)
			rb.counter[uint64(p.ZobristKey())]++
		}
	}
	return rb, nil
}

// BookOut is the outcome of a book scenario.
type BookOut struct {
	Sim        *Sim
	Violations []Violation
	Faults     map[string]int
	Probes     map[string]int
	Builds     int
	Entries    int
	GrantHash  []string
	Hash       uint64
}

func (o *BookOut) violate(prop, class, detail string) {
	for _, v := range o.Violations {
		if v.Class == class && v.Prop == prop {
			return
		}
	}
	o.Violations = append(o.Violations, Violation{Prop: prop, Class: class, Detail: detail})
}

func bookCounters(b *openingbook.Book) map[uint64]int {
	out := map[uint64]int{}
	for k, e := range b.VerifEntries() {
		out[k] = e.Counter
	}
	return out
}

func diffCounters(a, b map[uint64]int) string {
	var keys []uint64
	seen := map[uint64]bool{}
	for k := range a {
		keys = append(keys, k)
		seen[k] = true
	}
	for k := range b {
		if !seen[k] {
			keys = append(keys, k)
		}
	}
	sort.Slice(keys, func(i, j int) bool { return keys[i] < keys[j] })
	n := 0
	var sb strings.Builder
	for _, k := range keys {
		va, oka := a[k]
		vb, okb := b[k]
		if oka != okb || va != vb {
			if n < 3 {
				fmt.Fprintf(&sb, "key %x: %v/%d vs %v/%d; ", k, oka, va, okb, vb)
			}
			n++
		}
	}
	if n == 0 {
		return ""
	}
	return fmt.Sprintf("%d positions differ: %s", n, sb.String())
}

// walkBook checks soundness: every offered move is legal (rules model),
// leads to the linked successor, is offered once; every entry is reachable.
func walkBook(b *openingbook.Book, out *BookOut, label string) {
	entries := b.VerifEntries()
	root := b.VerifRootKey()
	type node struct {
		p  *position.Position
		rp *rules.Pos
	}
	start := position.NewPosition()
	if uint64(start.ZobristKey()) != root {
		out.violate("C19", "root_key_wrong", label)
		return
	}
	if _, ok := entries[root]; !ok {
		out.violate("C19", "root_missing", label)
		return
	}
	visited := map[uint64]bool{root: true}
	queue := []node{{start, rules.MustFen(rules.StartFen)}}
	for len(queue) > 0 {
		n := queue[0]
		queue = queue[1:]
		e := entries[uint64(n.p.ZobristKey())]
		seenMove := map[uint32]bool{}
		for _, s := range e.Moves {
			if seenMove[s.Move&0xFFFF] {
				out.violate("C19", "move_offered_twice", fmt.Sprintf("%s: position %s offers move %d twice", label, n.p.StringFen(), s.Move&0xFFFF))
			}
			seenMove[s.Move&0xFFFF] = true
			mg := movegen.NewMoveGen()
			lm := mg.GenerateLegalMoves(n.p, movegen.GenAll)
			var uci string
			found := false
			for _, m := range *lm {
				if uint32(m.MoveOf()) == s.Move&0xFFFF {
					uci, found = m.StringUci(), true
				}
			}
			if !found || !n.rp.IsLegal(uci) {
				out.violate("C19", "illegal_book_move", fmt.Sprintf("%s: position %s offers move %d (%s) which is not legal", label, n.rp.Fen(), s.Move, uci))
				continue
			}
			np := *n.p
			mv := mg.GetMoveFromUci(&np, uci)
			np.DoMove(mv)
			if uint64(np.ZobristKey()) != s.NextEntry {
				out.violate("C19", "wrong_successor_link", fmt.Sprintf("%s: %s + %s links to %x but leads to %x", label, n.rp.Fen(), uci, s.NextEntry, uint64(np.ZobristKey())))
				continue
			}
			if _, ok := entries[s.NextEntry]; !ok {
				out.violate("C19", "dangling_successor", fmt.Sprintf("%s: %s + %s links to a missing entry", label, n.rp.Fen(), uci))
				continue
			}
			if !visited[s.NextEntry] {
				visited[s.NextEntry] = true
				nrp := n.rp.Clone()
				_ = nrp.Play(uci)
				queue = append(queue, node{&np, nrp})
			}
		}
	}
	if len(visited) != len(entries) {
		out.violate("C19", "unreachable_entries", fmt.Sprintf("%s: %d entries, %d reachable from the root", label, len(entries), len(visited)))
	}
}

var formatByName = map[string]openingbook.BookFormat{"Simple": openingbook.Simple, "San": openingbook.San, "Pgn": openingbook.Pgn}

func bookTempDir(seed uint64) (string, error) {
	base := os.Getenv("VERIF_TMP")
	if base == "" {
		base = os.TempDir()
	}
	return os.MkdirTemp(base, fmt.Sprintf("vbook-%d-", seed))
}

// RunBook builds the book of a scenario under seeded schedules in all
// requested formats (C19). Runs inside the bubble.
func RunBook(sc *Scenario) *BookOut {
	bs := sc.Book
	sim := NewSim(sc.Seed, sc.Cost)
	SetCurrent(sim)
	defer SetCurrent(nil)
	out := &BookOut{Sim: sim, Faults: map[string]int{}, Probes: map[string]int{}, Hash: 1469598103934665603}
	dir, err := bookTempDir(sc.Seed)
	if err != nil {
		out.violate("C19", "harness", err.Error())
		return out
	}
	defer os.RemoveAll(dir)
	formats := []string{bs.Format}
	if bs.Format == "all" {
		formats = []string{"Simple", "San", "Pgn"}
	}
	hasPromo := false
	for _, g := range bs.Games {
		for _, m := range g {
			if len(m) == 5 {
				hasPromo = true
			}
		}
	}
	ref, err := buildRef(bs, false)
	if err != nil {
		out.violate("C19", "harness", err.Error())
		return out
	}
	var firstCounters map[uint64]int
	firstLabel := ""
	for _, f := range formats {
		var text string
		switch f {
		case "Simple":
			text = renderSimple(bs)
		case "San":
			text = renderSan(bs)
		case "Pgn":
			text = renderPgn(bs)
		}
		file := "book_" + f + ".txt"
		if err := os.WriteFile(filepath.Join(dir, file), []byte(text), 0o644); err != nil {
			out.violate("C19", "harness", err.Error())
			return out
		}
		seeds := bs.SchedSeeds
		if len(seeds) == 0 {
			seeds = []uint64{1}
		}
		for si, ss := range seeds {
			sim.BookRng = NewPRNG(ss, "booksched")
			sim.BookStrategy = (bs.Strategy + si) % BookStrategies
			sim.BookWorkers = 0
			sim.BookGrants = sim.BookGrants[:0]
			b := openingbook.NewBook()
			label := fmt.Sprintf("format %s schedule %d/strategy %d", f, ss, sim.BookStrategy)
			if err := b.Initialize(dir, file, formatByName[f], false, false); err != nil {
				out.violate("C19", "initialize_error", label+": "+err.Error())
				continue
			}
			out.Builds++
			out.Faults["F11_schedule_permutation"]++
			gh := uint64(1469598103934665603)
			for _, g := range sim.BookGrants {
				gh = (gh ^ uint64(g)) * 1099511628211
			}
			out.GrantHash = append(out.GrantHash, fmt.Sprintf("%016x", gh))
			out.Entries = b.NumberOfEntries()
			walkBook(b, out, label)
			got := bookCounters(b)
			if f == "Simple" && hasPromo {
				// known finding: the coordinate format reader drops the promotion
				// letter and cuts the line at the first promotion. Identified
				// exactly: the book equals the reference with lines cut there.
				out.Probes["simple_with_promotion"]++
				cutRef, _ := buildRef(bs, true)
				if cutRef != nil && diffCounters(got, cutRef.counter) == "" && diffCounters(got, ref.counter) != "" {
					out.violate("C19", "simple_format_cuts_line_at_promotion", label+": "+diffCounters(got, ref.counter))
					continue
				}
			}
			if d := diffCounters(got, ref.counter); d != "" {
				cls := "counters_differ_from_source_" + strings.ToLower(f)
				out.violate("C19", cls, label+": book vs sequential count of the source games: "+d)
			}
			if firstCounters == nil {
				firstCounters, firstLabel = got, label
			} else if d := diffCounters(got, firstCounters); d != "" {
				cls := "schedule_dependent"
				if !strings.HasPrefix(firstLabel, "format "+f+" ") {
					cls = "format_dependent"
				}
				out.violate("C19", cls, label+" vs "+firstLabel+": "+d)
			}
			for k, v := range got {
				out.Hash += mix64(k ^ uint64(v+1)*0x9e3779b97f4a7c15) // order independent
			}
		}
	}
	if len(bs.Bad) > 0 {
		out.Faults["F10_bad_move_in_line"] += len(bs.Bad)
	}
	return out
}

// ---------------------------------------------------------------------------
// C20: cache round trip and damaged cache files (fault enumeration). Runs
// outside the bubble: there is no schedule or clock to control here, and a
// goroutine blocked on the package-level mutex is not "durably blocked" for
// the bubble, so a lock leak would freeze fake time.
// ---------------------------------------------------------------------------

// CacheOut is the outcome of a cache scenario.
type CacheOut struct {
	Violations  []Violation
	Faults      map[string]int
	Cases       int
	Distinct    map[string]bool
	CacheLen    int
	Exhaustive  bool
	Undecodable int
	Samples     []string
}

func (o *CacheOut) violate(class, detail string) {
	for _, v := range o.Violations {
		if v.Class == class {
			return
		}
	}
	o.Violations = append(o.Violations, Violation{Prop: "C20", Class: class, Detail: detail})
}

type bookContent map[uint64]string

func contentOf(b *openingbook.Book) bookContent {
	out := bookContent{}
	for k, e := range b.VerifEntries() {
		ms := make([]string, 0, len(e.Moves))
		for _, s := range e.Moves {
			ms = append(ms, fmt.Sprintf("%d>%x", s.Move, s.NextEntry))
		}
		sort.Strings(ms)
		out[k] = fmt.Sprintf("%d|%s", e.Counter, strings.Join(ms, ","))
	}
	return out
}

func countsOf(b *openingbook.Book) bookContent {
	out := bookContent{}
	for k, e := range b.VerifEntries() {
		out[k] = fmt.Sprintf("%d", e.Counter)
	}
	return out
}

func sameContent(a, b bookContent) bool {
	if len(a) != len(b) {
		return false
	}
	for k, v := range a {
		if b[k] != v {
			return false
		}
	}
	return true
}

// initWithWatch runs Book.Initialize in its own goroutine. A healthy call
// returns within milliseconds; if it does not return while the book lock is
// held continuously for lockHeldLimit, it is a deadlock.
func initWithWatch(dir, file string, useCache bool) (b *openingbook.Book, err error, hung bool, panicked string) {
	return initOnWithWatch(nil, dir, file, useCache)
}

// initOnWithWatch initialises a fresh Book (prev == nil) or re-initialises
// prev after Reset(), the documented way to initialise a Book again.
func initOnWithWatch(prev *openingbook.Book, dir, file string, useCache bool) (b *openingbook.Book, err error, hung bool, panicked string) {
	if prev != nil {
		b = prev
		b.Reset()
	} else {
		b = openingbook.NewBook()
	}
	done := make(chan struct{})
	go func() {
		defer func() {
			if r := recover(); r != nil {
				panicked = fmt.Sprint(r)
			}
			close(done)
		}()
		err = b.Initialize(dir, file, openingbook.Simple, useCache, false)
	}()
	limit := time.Duration(envInt("VERIF_LOCK_HELD_MS", 3000)) * time.Millisecond
	heldSince := time.Time{}
	tick := time.NewTicker(5 * time.Millisecond)
	defer tick.Stop()
	for {
		select {
		case <-done:
			return b, err, false, panicked
		case <-tick.C:
			if openingbook.VerifLockHeld() {
				if heldSince.IsZero() {
					heldSince = time.Now()
				} else if time.Since(heldSince) > limit {
					return b, nil, true, ""
				}
			} else {
				heldSince = time.Time{}
			}
		}
	}
}

// gobBoundaries returns the offsets at which a message of a gob stream ends
// (gob frames every message with its byte count).
func gobBoundaries(data []byte) []int {
	var out []int
	i := 0
	for i < len(data) && len(out) < 64 {
		// gob unsigned integer: one byte < 128, or a negated byte count followed by big-endian bytes
		b := data[i]
		var n uint64
		if b < 128 {
			n = uint64(b)
			i++
		} else {
			cnt := int(-int8(b))
			if cnt < 1 || cnt > 8 || i+1+cnt > len(data) {
				break
			}
			for _, c := range data[i+1 : i+1+cnt] {
				n = n<<8 | uint64(c)
			}
			i += 1 + cnt
		}
		if n == 0 || uint64(i)+n > uint64(len(data)) {
			break
		}
		i += int(n)
		out = append(out, i)
	}
	return out
}

func gobDecodable(data []byte) bool {
	var m map[uint64]openingbook.BookEntry
	defer func() { _ = recover() }()
	return gob.NewDecoder(bytes.NewReader(data)).Decode(&m) == nil
}

// RunCache executes a cache scenario (C20).
func RunCache(sc *Scenario) *CacheOut {
	bs := sc.Book
	out := &CacheOut{Faults: map[string]int{}, Distinct: map[string]bool{}}
	SetCurrent(nil)
	dir, err := bookTempDir(sc.Seed)
	if err != nil {
		out.violate("harness", err.Error())
		return out
	}
	defer os.RemoveAll(dir)
	file := "book.txt"
	src := filepath.Join(dir, file)
	cache := src + ".cache"
	if err := os.WriteFile(src, []byte(renderSimple(bs)), 0o644); err != nil {
		out.violate("harness", err.Error())
		return out
	}
	// source-built book without cache
	refB, err0, hung, pan := initWithWatch(dir, file, false)
	if err0 != nil || hung || pan != "" {
		out.violate("harness", fmt.Sprintf("source build failed: %v hung=%v panic=%s", err0, hung, pan))
		return out
	}
	// Books built from the source in different runs agree in positions and
	// visit counts; which parent links to a transposed position depends on
	// the schedule of the build workers and is not part of the statement.
	want := countsOf(refB)
	// build with cache: writes the cache file
	b1, err1, hung, pan := initWithWatch(dir, file, true)
	if hung || pan != "" || err1 != nil {
		out.violate("cache_build_failed", fmt.Sprintf("first initialization with cache: err=%v hung=%v panic=%s", err1, hung, pan))
		return out
	}
	if !sameContent(countsOf(b1), want) {
		out.violate("cache_build_differs", "book built with caching enabled differs from the book built from the source")
	}
	saved := contentOf(b1)
	good, err := os.ReadFile(cache)
	if err != nil {
		out.violate("cache_not_written", err.Error())
		return out
	}
	out.CacheLen = len(good)
	// round trip: load from the intact cache
	b2, err2, hung, pan := initWithWatch(dir, file, true)
	out.Cases++
	if hung || pan != "" || err2 != nil {
		out.violate("intact_cache_load_failed", fmt.Sprintf("err=%v hung=%v panic=%s", err2, hung, pan))
	} else if !sameContent(contentOf(b2), saved) {
		// saved and loaded back: identical including all links
		out.violate("cache_roundtrip_differs", fmt.Sprintf("book loaded from its cache (%d entries) differs from the book that was saved (%d entries)", len(contentOf(b2)), len(saved)))
	}

	// label identifies the damage case independently of the file length
	// (which depends on schedule-dependent links): the permille the offset was
	// derived from, or 0 for sweeps
	label := 0
	// half of the runs re-initialise one Book object (Reset + Initialize)
	// instead of creating a new one per initialisation
	reuse := sc.Seed%2 == 1
	live := b2
	try := func(kind string, at int, data []byte, mode string) bool {
		_ = os.RemoveAll(cache)
		switch mode {
		case "missing":
			label = 0
		case "dir":
			label = 0
			_ = os.Mkdir(cache, 0o755)
		case "fulldisk":
			// the cache cannot be read (nothing but zeros) and cannot be written:
			// every write fails with "no space left on device"
			label = 0
			if err := os.Symlink("/dev/full", cache); err != nil {
				return true
			}
		default:
			if err := os.WriteFile(cache, data, 0o644); err != nil {
				out.violate("harness", err.Error())
				return false
			}
		}
		out.Cases++
		out.Faults["F9_"+kind]++
		// (offsets as permille of the file: its exact length depends on the
		// schedule-dependent links)
		pm := label
		out.Distinct[fmt.Sprintf("%s@%d", kind, pm)] = true
		undec := mode != "file" || !gobDecodable(data)
		if undec {
			out.Undecodable++
		}
		desc := fmt.Sprintf("cache %s at %d of %d bytes", kind, at, len(good))
		// two initialisations in a row: the lock is package level
		for rep := 0; rep < 2; rep++ {
			var prev *openingbook.Book
			if reuse {
				// one Book object lives through all initialisations of this run
				prev = live
				if prev != nil {
					out.Faults["F9_reinit_same_book_object"]++
				}
			}
			b, e, hung, pan := initOnWithWatch(prev, dir, file, true)
			if !hung && pan == "" {
				live = b
			} else {
				live = nil
			}
			if hung {
				out.violate("init_hangs_lock_held", desc+fmt.Sprintf(": Initialize (attempt %d) does not return, the book lock stays held", rep+1))
				return false
			}
			if pan != "" {
				out.violate("init_panics", desc+": "+pan)
				return false
			}
			if e != nil {
				out.violate("init_error", desc+": "+e.Error())
				return true
			}
			if undec && !sameContent(countsOf(b), want) {
				out.violate("damaged_cache_wrong_book", desc+fmt.Sprintf(": resulting book has %d entries, source-built book %d", len(countsOf(b)), len(want)))
				return true
			}
			if rep == 0 && (mode == "dir" || mode == "fulldisk") {
				_ = os.RemoveAll(cache)
			}
		}
		return true
	}

	rng := NewPRNG(sc.Seed, "cache")
	// offsets are given as permille of the file length (its exact length
	// depends on schedule-dependent links)
	offsetAt := func(at int) int {
		if len(good) < 2 {
			return 0
		}
		return (at % 1001) * (len(good) - 1) / 1000
	}
	// crash points of the non-atomic save: every prefix for small caches
	if bs.AllPrefixes {
		out.Exhaustive = len(good) <= 64*1024
		step := 1
		if !out.Exhaustive {
			step = len(good) / 4096
		}
		for k := 0; k < len(good); k += step {
			if !try("truncate", k, good[:k], "file") {
				return out
			}
		}
	}
	// crash points at the boundaries of the encoder's messages (each message
	// is written at once, so a killed process leaves the file cut exactly
	// there): every boundary, and one byte before and after it
	for _, b := range gobBoundaries(good) {
		for _, k := range []int{b - 1, b, b + 1} {
			if k > 0 && k < len(good) {
				if !try("truncate_at_message_boundary", k, good[:k], "file") {
					return out
				}
			}
		}
	}
	label = 0
	for _, d := range bs.Damage {
		switch d.Kind {
		case "truncate":
			label = d.At % 1001
			k := offsetAt(d.At)
			if !try("truncate", k, good[:k], "file") {
				return out
			}
		case "flip":
			label = d.At % 1001
			k := offsetAt(d.At)
			data := append([]byte{}, good...)
			data[k] ^= 1 << uint(d.Bit%8)
			if !try("bitflip", k, data, "file") {
				return out
			}
		case "garbage":
			label = d.Len % 4096
			n := d.Len%4096 + 1
			data := make([]byte, n)
			for i := range data {
				data[i] = byte(rng.Intn(256))
			}
			if !try("garbage", n, data, "file") {
				return out
			}
		case "empty":
			label = 0
			if !try("empty", 0, nil, "file") {
				return out
			}
		case "missing":
			label = 0
			if !try("missing", 0, nil, "missing") {
				return out
			}
		case "dir":
			label = 0
			if !try("directory", 0, nil, "dir") {
				return out
			}
		case "fulldisk":
			label = 0
			if _, err := os.Stat("/dev/full"); err == nil {
				if !try("disk_full", 0, nil, "fulldisk") {
					return out
				}
			}
		case "append":
			label = 0
			data := append(append([]byte{}, good...), 0xFF, 0x00, 0x13)
			if !try("appended", len(good), data, "file") {
				return out
			}
		case "zerofill":
			label = d.At % 1001
			k := offsetAt(d.At)
			data := append([]byte{}, good...)
			for i := k; i < len(data) && i < k+d.Len%64+1; i++ {
				data[i] = 0
			}
			if !try("zerofill", k, data, "file") {
				return out
			}
		}
	}
	if len(out.Samples) == 0 {
		out.Samples = append(out.Samples, fmt.Sprintf("%d games, cache %d bytes, %d cases", len(bs.Games), len(good), out.Cases))
	}
	return out
}

package verifsim

import (
	"fmt"
	"sort"
	"strings"
)

// configSnapshot parses the engine's own configuration print-out
// ("setoption name Print Config") into field -> value.
func configSnapshot(lines []string) map[string]string {
	snap := map[string]string{}
	section := "Eval."
	for _, l := range lines {
		if !strings.HasPrefix(l, "info string ") {
			continue
		}
		body := strings.TrimSpace(strings.TrimPrefix(l, "info string "))
		if strings.HasPrefix(body, "Evaluation Config") {
			section = "Search."
			continue
		}
		if strings.HasPrefix(body, "Search Config") {
			break
		}
		// "19: TTSize                 int    = 2"
		c := strings.Index(body, ":")
		e := strings.LastIndex(body, "=")
		if c < 0 || e < c {
			continue
		}
		f := strings.Fields(body[c+1 : e])
		if len(f) < 1 {
			continue
		}
		snap[section+f[0]] = strings.TrimSpace(body[e+1:])
	}
	return snap
}

// checkOptionAudit: a setoption command changes exactly the named option (as
// shown by the engine's own configuration print-out) and leaves all others
// at their previous values. The option -> field map is learnt from the
// print-outs themselves (no table of option names in the harness).
func checkOptionAudit(hist []HistLine, res *RunResult) {
	type snapAt struct {
		idx  int
		snap map[string]string
	}
	var snaps []snapAt
	for i := 0; i < len(hist); i++ {
		if hist[i].In && strings.TrimSpace(hist[i].Text) == "setoption name Print Config" {
			var lines []string
			j := i + 1
			for ; j < len(hist) && !hist[j].In; j++ {
				lines = append(lines, hist[j].Text)
			}
			s := configSnapshot(lines)
			if len(s) > 10 {
				snaps = append(snaps, snapAt{i, s})
			}
		}
	}
	optField := map[string]string{}
	fieldOpt := map[string]string{}
	current := map[string]string{}
	for _, o := range EngineOptions {
		current[o.Name] = o.Default
	}
	// values set by setoption lines outside audited pairs still count for "current"
	si := 0
	for i := 0; i < len(hist); i++ {
		if !hist[i].In {
			continue
		}
		if hist[i].Text == "#fresh_engine" {
			// options live in the process-wide configuration; keep what we know
			continue
		}
		name, value, ok := parseSetOption(hist[i].Text)
		if !ok || name == "Print Config" || name == "Clear Hash" {
			continue
		}
		// is this setoption bracketed by two print-outs with nothing else in between?
		for si < len(snaps) && snaps[si].idx < i {
			si++
		}
		var before, after *snapAt
		if si > 0 && si < len(snaps) {
			b, a := &snaps[si-1], &snaps[si]
			clean := true
			for k := b.idx + 1; k < a.idx; k++ {
				if hist[k].In && k != i {
					clean = false
				}
			}
			if clean {
				before, after = b, a
			}
		}
		prev, known := current[name]
		current[name] = value
		if before == nil {
			continue
		}
		res.count("setoption_audits", 1)
		var changed []string
		for f, v := range after.snap {
			if before.snap[f] != v {
				changed = append(changed, f)
			}
		}
		sort.Strings(changed)
		if len(changed) > 1 {
			res.addViolation("C12", "setoption_changes_several", fmt.Sprintf("%q changed %v", hist[i].Text, changed))
			continue
		}
		if len(changed) == 1 {
			f := changed[0]
			if !strings.EqualFold(after.snap[f], value) {
				res.addViolation("C12", "setoption_wrong_value", fmt.Sprintf("%q: field %s now shows %q", hist[i].Text, f, after.snap[f]))
			}
			if of, ok := optField[name]; ok && of != f {
				res.addViolation("C12", "setoption_wrong_field", fmt.Sprintf("option %q changed field %s earlier and %s now", name, of, f))
			}
			if oo, ok := fieldOpt[f]; ok && oo != name {
				res.addViolation("C12", "setoption_wrong_field", fmt.Sprintf("options %q and %q both change field %s", oo, name, f))
			}
			optField[name], fieldOpt[f] = f, name
		} else if known && !strings.EqualFold(prev, value) {
			res.addViolation("C12", "setoption_no_effect", fmt.Sprintf("%q (previous value %q) changed nothing in the configuration print-out", hist[i].Text, prev))
		}
	}
}

func parseSetOption(line string) (name, value string, ok bool) {
	tok := strings.Fields(line)
	if len(tok) < 3 || tok[0] != "setoption" || tok[1] != "name" {
		return "", "", false
	}
	i := 2
	var n []string
	for i < len(tok) && tok[i] != "value" {
		n = append(n, tok[i])
		i++
	}
	if i+1 < len(tok) {
		value = tok[i+1]
	}
	name = strings.Join(n, " ")
	// option names are not case sensitive (UCI): report the announced spelling
	for _, o := range EngineOptions {
		if strings.EqualFold(o.Name, name) {
			name = o.Name
		}
	}
	for _, b := range []string{"Print Config", "Clear Hash"} {
		if strings.EqualFold(b, name) {
			name = b
		}
	}
	return name, value, true
}

type searchOutcome struct {
	best  string
	last  string // score + pv of the last completed iteration
	depth string
	// score + pv of every iteration: iteration k of a fixed-depth search is
	// the result of the fixed-depth search to depth k
	iters []string
}

func outcomeAfter(hist []HistLine, goIdx int) (searchOutcome, bool) {
	var o searchOutcome
	for j := goIdx + 1; j < len(hist); j++ {
		if hist[j].In {
			if strings.HasPrefix(hist[j].Text, "go") || hist[j].Text == "#fresh_engine" {
				return o, false
			}
			continue
		}
		t := hist[j].Text
		if strings.HasPrefix(t, "info depth") && strings.Contains(t, " pv ") {
			f := strings.Fields(t)
			score, pv := "", ""
			for k := 0; k+2 < len(f); k++ {
				if f[k] == "score" {
					score = f[k+1] + " " + f[k+2]
				}
				if f[k] == "depth" {
					o.depth = f[k+1]
				}
			}
			if p := strings.Index(t, " pv "); p >= 0 {
				pv = t[p+4:]
			}
			o.last = score + " | " + pv
			o.iters = append(o.iters, "d"+o.depth+" "+o.last)
		}
		if strings.HasPrefix(t, "bestmove") {
			o.best = t
			return o, true
		}
	}
	return o, false
}

// checkNewGameEqualsFresh: after ucinewgame a fixed-depth search gives the
// same result (best move, value, pv; node counts are not compared) as on a
// freshly started engine with the same options.
func checkNewGameEqualsFresh(hist []HistLine, res *RunResult) {
	fresh := -1
	for i, h := range hist {
		if h.In && h.Text == "#fresh_engine" {
			fresh = i
		}
	}
	if fresh < 0 {
		return
	}
	// last "ucinewgame, position P, go depth d" before the marker
	ng := -1
	for i := fresh - 1; i >= 0; i-- {
		if hist[i].In && hist[i].Text == "ucinewgame" {
			ng = i
			break
		}
	}
	if ng < 0 {
		return
	}
	find := func(from, to int) (pos string, goLine string, goIdx int) {
		goIdx = -1
		for i := from; i < to; i++ {
			if !hist[i].In {
				continue
			}
			if strings.HasPrefix(hist[i].Text, "position") {
				pos = hist[i].Text
			}
			if strings.HasPrefix(hist[i].Text, "go depth") {
				return pos, hist[i].Text, i
			}
		}
		return
	}
	p1, g1, i1 := find(ng, fresh)
	p2, g2, i2 := find(fresh, len(hist))
	if i1 < 0 || i2 < 0 || p1 != p2 || g1 != g2 {
		return
	}
	o1, ok1 := outcomeAfter(hist, i1)
	o2, ok2 := outcomeAfter(hist, i2)
	if !ok1 || !ok2 {
		return
	}
	// both searches must have completed the requested depth (a search cut
	// short by a stop is not a fixed-depth result)
	want := strings.TrimSpace(strings.TrimPrefix(g1, "go depth"))
	if o1.depth != want || o2.depth != want {
		return
	}
	res.count("newgame_vs_fresh_compared", 1)
	if o1.best != o2.best || o1.last != o2.last {
		res.addViolation("C12", "newgame_differs_from_fresh", fmt.Sprintf("%s / %s: after ucinewgame %q [%s], fresh engine %q [%s]", p1, g1, o1.best, o1.last, o2.best, o2.last))
	} else if a, b := strings.Join(o1.iters, " ; "), strings.Join(o2.iters, " ; "); a != b {
		res.addViolation("C12", "newgame_differs_from_fresh", fmt.Sprintf("%s / %s: iterations after ucinewgame [%s], fresh engine [%s]", p1, g1, a, b))
	}
}

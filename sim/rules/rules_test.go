package rules

import "testing"

func TestPerft(t *testing.T) {
	cases := []struct {
		fen   string
		depth int
		want  uint64
	}{
		{StartFen, 4, 197281},
		{"r3k2r/p1ppqpb1/bn2pnp1/3PN3/1p2P3/2N2Q1p/PPPBBPPP/R3K2R w KQkq - 0 1", 3, 97862},
		{"8/2p5/3p4/KP5r/1R3p1k/8/4P1P1/8 w - - 0 1", 5, 674624},
		{"r3k2r/Pppp1ppp/1b3nbN/nP6/BBP1P3/q4N2/Pp1P2PP/R2Q1RK1 w kq - 0 1", 4, 422333},
		{"rnbq1k1r/pp1Pbppp/2p5/8/2B5/8/PPP1NnPP/RNBQK2R w KQ - 1 8", 3, 62379},
		{"r4rk1/1pp1qppp/p1np1n2/2b1p1B1/2B1P1b1/P1NP1N2/1PP1QPPP/R4RK1 w - - 0 10", 3, 89890},
	}
	for _, c := range cases {
		if got := MustFen(c.fen).Perft(c.depth); got != c.want {
			t.Errorf("perft(%s,%d)=%d want %d", c.fen, c.depth, got, c.want)
		}
	}
}

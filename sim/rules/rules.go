// Package rules is an independent, deliberately simple implementation of the
// rules of chess (8x8 mailbox, pseudo-legal generation plus king-safety test).
// It shares no code with the engine under test and is used as the oracle
// wherever the harness has to decide "is this move legal here" or "which
// position results".
package rules

import (
	"errors"
	"fmt"
	"strconv"
	"strings"
)

// Piece codes: 0 empty; white 1..6 = P N B R Q K; black 9..14.
const (
	Empty = 0
	P     = 1
	N     = 2
	B     = 3
	R     = 4
	Q     = 5
	K     = 6
	Black = 8
)

const (
	CastleWK = 1
	CastleWQ = 2
	CastleBK = 4
	CastleBQ = 8
)

// StartFen is the standard chess start position.
const StartFen = "rnbqkbnr/pppppppp/8/8/8/8/PPPPPPPP/RNBQKBNR w KQkq - 0 1"

// Pos is a chess position including the history needed for draw adjudication.
// Square index: a1=0, b1=1, ... h8=63.
type Pos struct {
	Board    [64]int8
	WhiteTo  bool
	Castle   int
	Ep       int // -1 none
	HalfMove int
	FullMove int
	hist     []string // repetition keys of all earlier positions of the game
}

// Move is a move in from/to/promotion form.
type Move struct {
	From, To int
	Promo    int8 // piece type N,B,R,Q or 0
}

func (m Move) String() string {
	s := SqName(m.From) + SqName(m.To)
	if m.Promo != 0 {
		s += string(" nbrq"[m.Promo-1])
	}
	return s
}

// SqName returns the algebraic name of a square.
func SqName(sq int) string {
	return string([]byte{byte('a' + sq%8), byte('1' + sq/8)})
}

// ParseSq parses an algebraic square name; -1 if invalid.
func ParseSq(s string) int {
	if len(s) != 2 || s[0] < 'a' || s[0] > 'h' || s[1] < '1' || s[1] > '8' {
		return -1
	}
	return int(s[0]-'a') + 8*int(s[1]-'1')
}

func colorOf(pc int8) int {
	if pc == 0 {
		return -1
	}
	if pc&Black != 0 {
		return 1
	}
	return 0
}

func typeOf(pc int8) int8 { return pc & 7 }

const pieceChars = " PNBRQK"

func pieceChar(pc int8) byte {
	c := pieceChars[typeOf(pc)]
	if pc&Black != 0 {
		c += 'a' - 'A'
	}
	return c
}

// ParseFen parses a complete six-field FEN (missing trailing fields get the
// usual defaults). It validates only syntax and board geometry.
func ParseFen(fen string) (*Pos, error) {
	f := strings.Fields(fen)
	if len(f) < 1 {
		return nil, errors.New("empty fen")
	}
	p := &Pos{Ep: -1, WhiteTo: true, FullMove: 1}
	ranks := strings.Split(f[0], "/")
	if len(ranks) != 8 {
		return nil, errors.New("need 8 ranks")
	}
	for i, rk := range ranks {
		r := 7 - i
		file := 0
		for _, c := range rk {
			if c >= '1' && c <= '8' {
				file += int(c - '0')
				continue
			}
			idx := strings.IndexRune("PNBRQK", c)
			pc := int8(0)
			if idx >= 0 {
				pc = int8(idx + 1)
			} else if idx = strings.IndexRune("pnbrqk", c); idx >= 0 {
				pc = int8(idx+1) | Black
			} else {
				return nil, fmt.Errorf("bad piece char %q", c)
			}
			if file > 7 {
				return nil, errors.New("rank too long")
			}
			p.Board[r*8+file] = pc
			file++
		}
		if file != 8 {
			return nil, errors.New("rank length != 8")
		}
	}
	if len(f) > 1 {
		switch f[1] {
		case "w":
			p.WhiteTo = true
		case "b":
			p.WhiteTo = false
		default:
			return nil, errors.New("bad side")
		}
	}
	if len(f) > 2 && f[2] != "-" {
		for _, c := range f[2] {
			switch c {
			case 'K':
				p.Castle |= CastleWK
			case 'Q':
				p.Castle |= CastleWQ
			case 'k':
				p.Castle |= CastleBK
			case 'q':
				p.Castle |= CastleBQ
			default:
				return nil, errors.New("bad castling")
			}
		}
	}
	if len(f) > 3 && f[3] != "-" {
		sq := ParseSq(f[3])
		if sq < 0 {
			return nil, errors.New("bad ep")
		}
		p.Ep = sq
	}
	if len(f) > 4 {
		n, err := strconv.Atoi(f[4])
		if err != nil || n < 0 {
			return nil, errors.New("bad halfmove")
		}
		p.HalfMove = n
	}
	if len(f) > 5 {
		n, err := strconv.Atoi(f[5])
		if err != nil || n < 0 {
			return nil, errors.New("bad fullmove")
		}
		if n == 0 {
			n = 1
		}
		p.FullMove = n
	}
	return p, nil
}

// MustFen parses a FEN and panics on error.
func MustFen(fen string) *Pos {
	p, err := ParseFen(fen)
	if err != nil {
		panic(fmt.Sprintf("rules.MustFen(%q): %v", fen, err))
	}
	return p
}

// Placement returns the first FEN field.
func (p *Pos) Placement() string {
	var sb strings.Builder
	for r := 7; r >= 0; r-- {
		empty := 0
		for f := 0; f < 8; f++ {
			pc := p.Board[r*8+f]
			if pc == 0 {
				empty++
				continue
			}
			if empty > 0 {
				sb.WriteByte(byte('0' + empty))
				empty = 0
			}
			sb.WriteByte(pieceChar(pc))
		}
		if empty > 0 {
			sb.WriteByte(byte('0' + empty))
		}
		if r > 0 {
			sb.WriteByte('/')
		}
	}
	return sb.String()
}

func (p *Pos) castleString() string {
	if p.Castle == 0 {
		return "-"
	}
	s := ""
	if p.Castle&CastleWK != 0 {
		s += "K"
	}
	if p.Castle&CastleWQ != 0 {
		s += "Q"
	}
	if p.Castle&CastleBK != 0 {
		s += "k"
	}
	if p.Castle&CastleBQ != 0 {
		s += "q"
	}
	return s
}

// Fen returns the six-field FEN. The en-passant field is set after every
// double pawn push (the classical convention, which the engine also uses).
func (p *Pos) Fen() string {
	side := "w"
	if !p.WhiteTo {
		side = "b"
	}
	ep := "-"
	if p.Ep >= 0 {
		ep = SqName(p.Ep)
	}
	return fmt.Sprintf("%s %s %s %s %d %d", p.Placement(), side, p.castleString(), ep, p.HalfMove, p.FullMove)
}

// repKey identifies a position for repetition purposes: placement, side,
// castling rights and en-passant field.
func (p *Pos) repKey() string {
	side := "w"
	if !p.WhiteTo {
		side = "b"
	}
	ep := "-"
	if p.Ep >= 0 {
		ep = SqName(p.Ep)
	}
	return p.Placement() + " " + side + " " + p.castleString() + " " + ep
}

// Clone returns a deep copy.
func (p *Pos) Clone() *Pos {
	q := *p
	q.hist = append([]string(nil), p.hist...)
	return &q
}

func (p *Pos) side() int {
	if p.WhiteTo {
		return 0
	}
	return 1
}

var knightD = [8][2]int{{1, 2}, {2, 1}, {2, -1}, {1, -2}, {-1, -2}, {-2, -1}, {-2, 1}, {-1, 2}}
var kingD = [8][2]int{{1, 0}, {1, 1}, {0, 1}, {-1, 1}, {-1, 0}, {-1, -1}, {0, -1}, {1, -1}}
var bishopD = [4][2]int{{1, 1}, {-1, 1}, {-1, -1}, {1, -1}}
var rookD = [4][2]int{{1, 0}, {0, 1}, {-1, 0}, {0, -1}}

// Attacked reports whether square sq is attacked by a piece of colour by.
func (p *Pos) Attacked(sq int, by int) bool {
	f, r := sq%8, sq/8
	col := int8(0)
	if by == 1 {
		col = Black
	}
	// pawns
	dr := -1
	if by == 1 {
		dr = 1
	}
	for _, df := range [2]int{-1, 1} {
		ff, rr := f+df, r+dr
		if ff >= 0 && ff < 8 && rr >= 0 && rr < 8 && p.Board[rr*8+ff] == P|col {
			return true
		}
	}
	for _, d := range knightD {
		ff, rr := f+d[0], r+d[1]
		if ff >= 0 && ff < 8 && rr >= 0 && rr < 8 && p.Board[rr*8+ff] == N|col {
			return true
		}
	}
	for _, d := range kingD {
		ff, rr := f+d[0], r+d[1]
		if ff >= 0 && ff < 8 && rr >= 0 && rr < 8 && p.Board[rr*8+ff] == K|col {
			return true
		}
	}
	for _, d := range bishopD {
		ff, rr := f+d[0], r+d[1]
		for ff >= 0 && ff < 8 && rr >= 0 && rr < 8 {
			pc := p.Board[rr*8+ff]
			if pc != 0 {
				if pc == B|col || pc == Q|col {
					return true
				}
				break
			}
			ff += d[0]
			rr += d[1]
		}
	}
	for _, d := range rookD {
		ff, rr := f+d[0], r+d[1]
		for ff >= 0 && ff < 8 && rr >= 0 && rr < 8 {
			pc := p.Board[rr*8+ff]
			if pc != 0 {
				if pc == R|col || pc == Q|col {
					return true
				}
				break
			}
			ff += d[0]
			rr += d[1]
		}
	}
	return false
}

// KingSq returns the king square of the colour or -1.
func (p *Pos) KingSq(c int) int {
	k := int8(K)
	if c == 1 {
		k |= Black
	}
	for i, pc := range p.Board {
		if pc == k {
			return i
		}
	}
	return -1
}

// InCheck reports whether the side to move is in check.
func (p *Pos) InCheck() bool {
	k := p.KingSq(p.side())
	if k < 0 {
		return false
	}
	return p.Attacked(k, 1-p.side())
}

func (p *Pos) pseudo() []Move {
	var ms []Move
	us := p.side()
	col := int8(0)
	if us == 1 {
		col = Black
	}
	add := func(from, to int) { ms = append(ms, Move{from, to, 0}) }
	for sq, pc := range p.Board {
		if pc == 0 || colorOf(pc) != us {
			continue
		}
		f, r := sq%8, sq/8
		switch typeOf(pc) {
		case P:
			dr, startR, promoR := 1, 1, 7
			if us == 1 {
				dr, startR, promoR = -1, 6, 0
			}
			addP := func(to int) {
				if to/8 == promoR {
					for _, pr := range []int8{Q, R, B, N} {
						ms = append(ms, Move{sq, to, pr})
					}
				} else {
					add(sq, to)
				}
			}
			rr := r + dr
			if rr >= 0 && rr < 8 {
				if p.Board[rr*8+f] == 0 {
					addP(rr*8 + f)
					if r == startR && p.Board[(r+2*dr)*8+f] == 0 {
						add(sq, (r+2*dr)*8+f)
					}
				}
				for _, df := range [2]int{-1, 1} {
					ff := f + df
					if ff < 0 || ff > 7 {
						continue
					}
					to := rr*8 + ff
					t := p.Board[to]
					if t != 0 && colorOf(t) != us {
						addP(to)
					} else if t == 0 && to == p.Ep {
						// en passant: the captured pawn must be there
						capSq := r*8 + ff
						if p.Board[capSq] == (P | (col ^ Black)) {
							add(sq, to)
						}
					}
				}
			}
		case N:
			for _, d := range knightD {
				ff, rr := f+d[0], r+d[1]
				if ff >= 0 && ff < 8 && rr >= 0 && rr < 8 {
					t := p.Board[rr*8+ff]
					if t == 0 || colorOf(t) != us {
						add(sq, rr*8+ff)
					}
				}
			}
		case K:
			for _, d := range kingD {
				ff, rr := f+d[0], r+d[1]
				if ff >= 0 && ff < 8 && rr >= 0 && rr < 8 {
					t := p.Board[rr*8+ff]
					if t == 0 || colorOf(t) != us {
						add(sq, rr*8+ff)
					}
				}
			}
			// castling
			home, kRight, qRight := 4, CastleWK, CastleWQ
			if us == 1 {
				home, kRight, qRight = 60, CastleBK, CastleBQ
			}
			if sq == home && !p.Attacked(home, 1-us) {
				if p.Castle&kRight != 0 && p.Board[home+1] == 0 && p.Board[home+2] == 0 &&
					p.Board[home+3] == R|col && !p.Attacked(home+1, 1-us) && !p.Attacked(home+2, 1-us) {
					add(sq, home+2)
				}
				if p.Castle&qRight != 0 && p.Board[home-1] == 0 && p.Board[home-2] == 0 && p.Board[home-3] == 0 &&
					p.Board[home-4] == R|col && !p.Attacked(home-1, 1-us) && !p.Attacked(home-2, 1-us) {
					add(sq, home-2)
				}
			}
		default:
			var dirs [][2]int
			if typeOf(pc) == B || typeOf(pc) == Q {
				dirs = append(dirs, bishopD[:]...)
			}
			if typeOf(pc) == R || typeOf(pc) == Q {
				dirs = append(dirs, rookD[:]...)
			}
			for _, d := range dirs {
				ff, rr := f+d[0], r+d[1]
				for ff >= 0 && ff < 8 && rr >= 0 && rr < 8 {
					t := p.Board[rr*8+ff]
					if t == 0 {
						add(sq, rr*8+ff)
					} else {
						if colorOf(t) != us {
							add(sq, rr*8+ff)
						}
						break
					}
					ff += d[0]
					rr += d[1]
				}
			}
		}
	}
	return ms
}

// apply makes the move on the board without legality check and without
// recording history.
func (p *Pos) apply(m Move) {
	us := p.side()
	pc := p.Board[m.From]
	target := p.Board[m.To]
	col := pc & Black
	isPawn := typeOf(pc) == P
	newEp := -1
	if isPawn && m.To == p.Ep && target == 0 && m.From%8 != m.To%8 {
		// en passant capture
		p.Board[(m.From/8)*8+m.To%8] = 0
	}
	if isPawn && abs(m.To-m.From) == 16 {
		newEp = (m.From + m.To) / 2
	}
	p.Board[m.To] = pc
	p.Board[m.From] = 0
	if m.Promo != 0 {
		p.Board[m.To] = m.Promo | col
	}
	if typeOf(pc) == K && abs(m.To-m.From) == 2 {
		if m.To > m.From {
			p.Board[m.From+1] = p.Board[m.From+3]
			p.Board[m.From+3] = 0
		} else {
			p.Board[m.From-1] = p.Board[m.From-4]
			p.Board[m.From-4] = 0
		}
	}
	// castling rights
	clear := func(sq int) {
		switch sq {
		case 4:
			p.Castle &^= CastleWK | CastleWQ
		case 0:
			p.Castle &^= CastleWQ
		case 7:
			p.Castle &^= CastleWK
		case 60:
			p.Castle &^= CastleBK | CastleBQ
		case 56:
			p.Castle &^= CastleBQ
		case 63:
			p.Castle &^= CastleBK
		}
	}
	clear(m.From)
	clear(m.To)
	if isPawn || target != 0 {
		p.HalfMove = 0
	} else {
		p.HalfMove++
	}
	p.Ep = newEp
	if us == 1 {
		p.FullMove++
	}
	p.WhiteTo = !p.WhiteTo
}

func abs(a int) int {
	if a < 0 {
		return -a
	}
	return a
}

// LegalMoves returns all legal moves.
func (p *Pos) LegalMoves() []Move {
	var out []Move
	us := p.side()
	for _, m := range p.pseudo() {
		q := *p
		q.hist = nil
		q.apply(m)
		k := q.KingSq(us)
		if k >= 0 && q.Attacked(k, 1-us) {
			continue
		}
		out = append(out, m)
	}
	return out
}

// ParseMove parses a UCI move string and returns it if legal.
func (p *Pos) ParseMove(s string) (Move, bool) {
	s = strings.ToLower(strings.TrimSpace(s))
	if len(s) != 4 && len(s) != 5 {
		return Move{}, false
	}
	from, to := ParseSq(s[0:2]), ParseSq(s[2:4])
	if from < 0 || to < 0 {
		return Move{}, false
	}
	pr := int8(0)
	if len(s) == 5 {
		idx := strings.IndexByte("nbrq", s[4])
		if idx < 0 {
			return Move{}, false
		}
		pr = int8(idx + 2)
	}
	for _, m := range p.LegalMoves() {
		if m.From == from && m.To == to && m.Promo == pr {
			return m, true
		}
	}
	return Move{}, false
}

// PseudoIllegalMoves returns the moves that obey the movement rules of the
// pieces but leave the own king in check (moves of pinned pieces, king
// steps onto attacked squares, en passant captures that open a line).
func (p *Pos) PseudoIllegalMoves() []Move {
	var out []Move
	us := p.side()
	for _, m := range p.pseudo() {
		q := *p
		q.hist = nil
		q.apply(m)
		k := q.KingSq(us)
		if k >= 0 && q.Attacked(k, 1-us) {
			out = append(out, m)
		}
	}
	return out
}

// ParsePseudo finds the pseudo-legal move with the given coordinates.
func (p *Pos) ParsePseudo(s string) (Move, bool) {
	s = strings.ToLower(strings.TrimSpace(s))
	for _, m := range p.pseudo() {
		if m.String() == s {
			return m, true
		}
	}
	return Move{}, false
}

// IsLegal reports whether the UCI move string is a legal move.
func (p *Pos) IsLegal(s string) bool {
	_, ok := p.ParseMove(s)
	return ok
}

// Play makes a legal move given in UCI notation and records history.
func (p *Pos) Play(s string) error {
	m, ok := p.ParseMove(s)
	if !ok {
		return fmt.Errorf("illegal move %q in %s", s, p.Fen())
	}
	p.PlayMove(m)
	return nil
}

// PlayMove makes a move that must be legal and records history.
func (p *Pos) PlayMove(m Move) {
	p.hist = append(p.hist, p.repKey())
	p.apply(m)
}

// Repetitions returns how many earlier positions of the game equal the
// current one (placement, side, castling rights, ep field). Only positions
// since the last irreversible move can match.
func (p *Pos) Repetitions() int {
	k := p.repKey()
	n := 0
	for _, h := range p.hist {
		if h == k {
			n++
		}
	}
	return n
}

// HasKings reports whether each side has exactly one king.
// CastlingFitsBoard reports whether every castling right has its king and
// rook on their home squares.
func (p *Pos) CastlingFitsBoard() bool {
	if p.Castle&CastleWK != 0 && (p.Board[4] != K || p.Board[7] != R) {
		return false
	}
	if p.Castle&CastleWQ != 0 && (p.Board[4] != K || p.Board[0] != R) {
		return false
	}
	if p.Castle&CastleBK != 0 && (p.Board[60] != K|Black || p.Board[63] != R|Black) {
		return false
	}
	if p.Castle&CastleBQ != 0 && (p.Board[60] != K|Black || p.Board[56] != R|Black) {
		return false
	}
	return true
}

func (p *Pos) HasKings() bool {
	w, b := 0, 0
	for _, pc := range p.Board {
		if pc == K {
			w++
		}
		if pc == K|Black {
			b++
		}
	}
	return w == 1 && b == 1
}

// Sane reports whether the position is a legal chess position in the sense
// used by the properties: one king per side, the side not to move is not in
// check, no pawns on the first or last rank, castling rights consistent with
// king/rook placement, en-passant field consistent.
func (p *Pos) Sane() bool {
	if !p.HasKings() {
		return false
	}
	them := 1 - p.side()
	if p.Attacked(p.KingSq(them), p.side()) {
		return false
	}
	for f := 0; f < 8; f++ {
		if typeOf(p.Board[f]) == P || typeOf(p.Board[56+f]) == P {
			return false
		}
	}
	if p.Castle&CastleWK != 0 && (p.Board[4] != K || p.Board[7] != R) {
		return false
	}
	if p.Castle&CastleWQ != 0 && (p.Board[4] != K || p.Board[0] != R) {
		return false
	}
	if p.Castle&CastleBK != 0 && (p.Board[60] != K|Black || p.Board[63] != R|Black) {
		return false
	}
	if p.Castle&CastleBQ != 0 && (p.Board[60] != K|Black || p.Board[56] != R|Black) {
		return false
	}
	if p.Ep >= 0 {
		r := p.Ep / 8
		if p.WhiteTo {
			if r != 5 || p.Board[p.Ep-8] != P|Black || p.Board[p.Ep] != 0 || p.Board[p.Ep+8] != 0 {
				return false
			}
		} else {
			if r != 2 || p.Board[p.Ep+8] != P || p.Board[p.Ep] != 0 || p.Board[p.Ep-8] != 0 {
				return false
			}
		}
	}
	// piece count sanity (no more than 16 per side)
	cnt := [2]int{}
	for _, pc := range p.Board {
		if pc != 0 {
			cnt[colorOf(pc)]++
		}
	}
	return cnt[0] <= 16 && cnt[1] <= 16
}

// Perft counts leaf nodes to the given depth.
func (p *Pos) Perft(depth int) uint64 {
	if depth == 0 {
		return 1
	}
	ms := p.LegalMoves()
	if depth == 1 {
		return uint64(len(ms))
	}
	var n uint64
	for _, m := range ms {
		q := *p
		q.hist = nil
		q.apply(m)
		n += q.Perft(depth - 1)
	}
	return n
}

// San returns the standard algebraic notation of a legal move (with check
// and mate suffixes and minimal disambiguation).
func (p *Pos) San(m Move) string {
	pc := p.Board[m.From]
	t := typeOf(pc)
	var sb strings.Builder
	if t == K && abs(m.To-m.From) == 2 {
		if m.To > m.From {
			sb.WriteString("O-O")
		} else {
			sb.WriteString("O-O-O")
		}
	} else {
		capture := p.Board[m.To] != 0 || (t == P && m.From%8 != m.To%8)
		if t == P {
			if capture {
				sb.WriteByte(byte('a' + m.From%8))
			}
		} else {
			sb.WriteByte(pieceChars[t])
			// disambiguation
			sameFile, sameRank, others := false, false, false
			for _, o := range p.LegalMoves() {
				if o.To == m.To && o.From != m.From && p.Board[o.From] == pc {
					others = true
					if o.From%8 == m.From%8 {
						sameFile = true
					}
					if o.From/8 == m.From/8 {
						sameRank = true
					}
				}
			}
			if others {
				if !sameFile {
					sb.WriteByte(byte('a' + m.From%8))
				} else if !sameRank {
					sb.WriteByte(byte('1' + m.From/8))
				} else {
					sb.WriteString(SqName(m.From))
				}
			}
		}
		if capture {
			sb.WriteByte('x')
		}
		sb.WriteString(SqName(m.To))
		if m.Promo != 0 {
			sb.WriteByte('=')
			sb.WriteByte(pieceChars[m.Promo])
		}
	}
	q := p.Clone()
	q.apply(m)
	if q.InCheck() {
		if len(q.LegalMoves()) == 0 {
			sb.WriteByte('#')
		} else {
			sb.WriteByte('+')
		}
	}
	return sb.String()
}

//go:build race

package verifsim

const raceEnabled = true

// In -race builds the harness must not synchronise on engine goroutines
// (it would add happens-before edges and hide engine races). Workers run
// with GOMAXPROCS=1 there, so the short hand-off windows in which two
// goroutines touch harness state within one fake instant are serialised by
// the Go scheduler itself.
func harnessLock()   {}
func harnessUnlock() {}

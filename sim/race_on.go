//go:build race

package verifsim

const raceEnabled = true

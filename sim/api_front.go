package verifsim

import (
	"fmt"
	"strings"
	"sync"
	"time"

	"github.com/frankkopp/FrankyGo/internal/movegen"
	"github.com/frankkopp/FrankyGo/internal/moveslice"
	"github.com/frankkopp/FrankyGo/internal/position"
	"github.com/frankkopp/FrankyGo/internal/search"
	"github.com/frankkopp/FrankyGo/internal/types"

	"github.com/frankkopp/FrankyGo/verifsim/rules"
)

// apiDriver is the harness in the role of the engine's UCI driver. Its
// methods run on engine goroutines: //go:norace, no synchronisation.
type apiDriver struct {
	sim     *Sim
	results []apiResult
	readyOk int
	infos   int
	iterPv  []iterInfo
}

type apiResult struct {
	T      int64
	Gen    int
	Best   types.Move
	Ponder types.Move
}

type iterInfo struct {
	Gen   int
	Depth int
	Nodes uint64
	Pv    string
}

//go:norace
func (d *apiDriver) SendReadyOk() {
	harnessLock()
	d.readyOk++
	harnessUnlock()
	d.sim.record(EvReadyOk, 0)
}

//go:norace
func (d *apiDriver) SendInfoString(info string) {
	harnessLock()
	d.infos++
	harnessUnlock()
}

//go:norace
func (d *apiDriver) SendIterationEndInfo(depth int, seldepth int, value types.Value, nodes uint64, nps uint64, t time.Duration, pv moveslice.MoveSlice) {
	harnessLock()
	d.iterPv = append(d.iterPv, iterInfo{Gen: d.sim.SearchGen, Depth: depth, Nodes: nodes, Pv: pv.StringUci()})
	harnessUnlock()
}

//go:norace
func (d *apiDriver) SendAspirationResearchInfo(depth int, seldepth int, value types.Value, bound string, nodes uint64, nps uint64, t time.Duration, pv moveslice.MoveSlice) {
}

//go:norace
func (d *apiDriver) SendCurrentRootMove(currMove types.Move, moveNumber int) {}

//go:norace
func (d *apiDriver) SendSearchUpdate(depth int, seldepth int, nodes uint64, nps uint64, t time.Duration, hashfull int) {
}

//go:norace
func (d *apiDriver) SendCurrentLine(moveList moveslice.MoveSlice) {}

//go:norace
func (d *apiDriver) SendResult(bestMove types.Move, ponderMove types.Move) {
	harnessLock()
	d.results = append(d.results, apiResult{T: d.sim.Now(), Gen: d.sim.SearchGen, Best: bestMove, Ponder: ponderMove})
	harnessUnlock()
	d.sim.record(EvResult, 0)
	d.sim.MixHash([]byte(bestMove.StringUci()))
}

//go:norace
func (d *apiDriver) nResults() int { return len(d.results) }

// apiCall records one controller call.
type apiCall struct {
	Step     int
	Op       string
	T0, T1   int64 // issue / return (T1 < 0: never returned)
	Gen0     int   // search generation when issued
	Active0  bool  // a search was running when issued
	Window0  bool  // issued between a result and the release of the running lock (either answer is right)
	Results0 int   // results delivered before the call
	Results1 int   // results delivered when the call returned
	BoolRet  bool  // IsSearching result
	Limits   *LimitSpec
	Root     *rules.Pos
	// filled for start calls once the search has ended
	FenBefore, FenAfter string
	KeyBefore, KeyAfter uint64
}

// ApiRunOut is what the API-level oracles work on.
type ApiRunOut struct {
	Sim        *Sim
	Calls      []apiCall
	Results    []apiResult
	Iter       []iterInfo
	Final      []finalInfo // LastSearchResult snapshots taken by the controller after waits (plain build)
	Blocked    *apiCall    // the call that blocked the controller (if any)
	BlockedOp  string
	LeftTimers int
	LeftSearch bool
	Faults     map[string]int
	Probes     map[string]int
	SigHash    uint64
	ReadyOk    int
	CtlPanic   string
}

type finalInfo struct {
	Call       int // index of the start call this belongs to
	Best       string
	Ponder     string
	Pv         string
	Value      int
	Depth      int
	Nodes      uint64
	BookMove   bool
	StatsMates uint64
	StatsStale uint64
}

func limitsFromSpec(l *LimitSpec, p *position.Position) search.Limits {
	sl := search.NewSearchLimits()
	sl.Infinite = l.Infinite
	sl.Ponder = l.Ponder
	sl.Mate = l.Mate
	sl.Depth = l.Depth
	sl.Nodes = l.Nodes
	if l.MoveTime > 0 {
		sl.MoveTime = time.Duration(l.MoveTime) * time.Millisecond
		sl.TimeControl = true
	}
	if l.WTime > 0 || l.BTime > 0 {
		sl.WhiteTime = time.Duration(l.WTime) * time.Millisecond
		sl.BlackTime = time.Duration(l.BTime) * time.Millisecond
		sl.WhiteInc = time.Duration(l.WInc) * time.Millisecond
		sl.BlackInc = time.Duration(l.BInc) * time.Millisecond
		sl.MovesToGo = l.MovesToGo
		sl.TimeControl = true
	}
	if len(l.Moves) > 0 {
		mg := movegen.NewMoveGen()
		for _, m := range l.Moves {
			mv := mg.GetMoveFromUci(p, m)
			if mv.IsValid() {
				sl.Moves.PushBack(mv)
			} else if len(m) == 4 {
				// a move that is not legal here (an API caller's list made for
				// another position): handed over as a plain from-to move
				from, to := types.MakeSquare(m[:2]), types.MakeSquare(m[2:4])
				if from.IsValid() && to.IsValid() && from != to {
					sl.Moves.PushBack(types.CreateMove(from, to, types.Normal, types.PtNone))
				}
			}
		}
	}
	return *sl
}

// buildPosition creates the engine position for fen+moves and the rules
// model twin. The two must agree on the FEN (harness self-check).
func buildPosition(fen string, moves []string) (*position.Position, *rules.Pos, error) {
	rp, err := rules.ParseFen(fen)
	if err != nil {
		return nil, nil, err
	}
	p, err := position.NewPositionFen(fen)
	if err != nil || p == nil {
		return nil, nil, fmt.Errorf("engine rejects corpus fen %q: %v", fen, err)
	}
	mg := movegen.NewMoveGen()
	for _, m := range moves {
		mv := mg.GetMoveFromUci(p, m)
		if !mv.IsValid() {
			return nil, nil, fmt.Errorf("engine rejects move %s in %s", m, p.StringFen())
		}
		p.DoMove(mv)
		if err := rp.Play(m); err != nil {
			return nil, nil, err
		}
	}
	if p.StringFen() != rp.Fen() {
		return nil, nil, fmt.Errorf("position mismatch engine %q rules %q", p.StringFen(), rp.Fen())
	}
	return p, rp, nil
}

// RunApiScript drives search.Search through its lifecycle interface from a
// controller goroutine, watched by the bubble's main goroutine.
func RunApiScript(sc *Scenario) *ApiRunOut {
	sim := NewSim(sc.Seed, sc.Cost)
	sim.MonitorTerm = true
	SetCurrent(sim)
	defer SetCurrent(nil)
	out := &ApiRunOut{Sim: sim, Faults: map[string]int{}, Probes: map[string]int{}, SigHash: 1469598103934665603}
	drv := &apiDriver{sim: sim}
	s := search.NewSearch()
	s.SetUciHandler(drv)

	// calls and cur are shared between the controller and the watcher (both
	// harness goroutines; the watcher never touches engine state, so the
	// mutex adds no happens-before edge between engine goroutines)
	var mu sync.Mutex
	calls := make([]apiCall, 0, len(sc.Steps)+2)
	cur := -1 // index of the call in progress
	done := make(chan string, 1)
	begin := func(c apiCall) int {
		mu.Lock()
		defer mu.Unlock()
		calls = append(calls, c)
		cur = len(calls) - 1
		return cur
	}
	end := func(ci int, f func(c *apiCall)) {
		mu.Lock()
		defer mu.Unlock()
		f(&calls[ci])
		cur = -1
	}

	go func() {
		msg := ""
		defer func() {
			if r := recover(); r != nil {
				msg = fmt.Sprintf("panic: %v", r)
			}
			done <- msg
		}()
		lastStart := -1
		snapshot := func() {
			if lastStart < 0 || drv.nResults() == 0 {
				return
			}
			r := s.LastSearchResult()
			st := s.Statistics()
			out.Final = append(out.Final, finalInfo{Call: lastStart, Best: r.BestMove.StringUci(), Ponder: r.PonderMove.StringUci(),
				Pv: r.Pv.StringUci(), Value: int(r.BestValue), Depth: r.SearchDepth, Nodes: s.NodesVisited(), BookMove: r.BookMove,
				StatsMates: st.Checkmates, StatsStale: st.Stalemates})
		}
		var keep []*position.Position
		for i := range sc.Steps {
			st := &sc.Steps[i]
			sim.ActorSleep(offCtl, st.GapUs*1000)
			if simExhausted(sim) {
				break
			}
			c := apiCall{Step: i, Op: st.Op, T0: sim.Now(), T1: -1, Gen0: simGen(sim), Active0: simSearching(sim), Window0: simInWindow(sim), Results0: drv.nResults(), Limits: st.Limits}
			out.noteApiArrival(sim, st, c.Active0)
			ci := begin(c)
			var upd apiCall
			switch st.Op {
			case "start":
				p, rp, err := buildPosition(st.Fen, st.Moves)
				if err != nil {
					panic("harness: " + err.Error())
				}
				upd.Root = rp
				upd.FenBefore, upd.KeyBefore = p.StringFen(), uint64(p.ZobristKey())
				keep = append(keep, p)
				sl := limitsFromSpec(st.Limits, p)
				s.StartSearch(*p, sl)
				upd.FenAfter, upd.KeyAfter = p.StringFen(), uint64(p.ZobristKey())
				if !c.Active0 {
					lastStart = ci
				}
			case "stop":
				s.StopSearch()
				snapshot()
			case "wait":
				s.WaitWhileSearching()
				snapshot()
			case "is_searching":
				upd.BoolRet = s.IsSearching()
			case "ponderhit":
				s.PonderHit()
			case "newgame":
				s.NewGame()
			case "clearhash":
				s.ClearHash()
			case "resize":
				ResizeSetting(st.Arg)
				s.ResizeCache()
			case "isready":
				s.IsReady()
			}
			end(ci, func(c *apiCall) {
				c.T1 = sim.Now()
				c.Results1 = drv.nResults()
				c.Root, c.FenBefore, c.KeyBefore, c.FenAfter, c.KeyAfter, c.BoolRet = upd.Root, upd.FenBefore, upd.KeyBefore, upd.FenAfter, upd.KeyAfter, upd.BoolRet
			})
		}
		// close: stop whatever runs
		sim.ActorSleep(offCtl, 1000)
		ci := begin(apiCall{Step: len(sc.Steps), Op: "final_stop", T0: sim.Now(), T1: -1, Gen0: simGen(sim), Active0: simSearching(sim), Results0: drv.nResults()})
		s.StopSearch()
		snapshot()
		end(ci, func(c *apiCall) {
			c.T1 = sim.Now()
			c.Results1 = drv.nResults()
		})
	}()

	// watcher: the main goroutine of the bubble
	finished := false
	for !finished {
		select {
		case msg := <-done:
			out.CtlPanic = msg
			finished = true
			continue
		default:
		}
		sim.ActorSleep(offAux, 250_000)
		mu.Lock()
		ci := cur
		var c apiCall
		if ci >= 0 {
			c = calls[ci]
		}
		mu.Unlock()
		if ci >= 0 {
			bound := int64(1_000_000_000) // non-waiting calls: 1 fake second
			if c.Op == "stop" || c.Op == "wait" || c.Op == "final_stop" || c.Op == "newgame" {
				bound = 3 * 3600 * 1_000_000_000
			}
			if sim.Now()-c.T0 > bound {
				cc := c
				out.Blocked = &cc
				out.BlockedOp = c.Op
				break
			}
		}
		if simExhausted(sim) && ci < 0 {
			// controller will notice and finish
		}
	}
	if out.Blocked != nil {
		// the controller is stuck inside the engine; end the run: kill the
		// search goroutine at its next yield and leave the bubble (the
		// blocked goroutine is reported by the bubble as a deadlock, which
		// RunScenario expects in this case).
		simAbort(sim)
		sim.ActorSleep(offAux, 50_000_000)
	} else {
		out.LeftTimers, out.LeftSearch = DrainEngine(sim, offAux)
	}
	mu.Lock()
	out.Calls = append([]apiCall(nil), calls...)
	mu.Unlock()
	out.Results = drv.results
	out.Iter = drv.iterPv
	out.ReadyOk = drv.readyOk
	return out
}

// ResizeSetting sets the hash size the next ResizeCache uses (the engine
// reads it from its global configuration, as the option handler does).
func ResizeSetting(mb int) {
	if mb <= 0 {
		mb = 1
	}
	setTTSize(mb)
}

//go:norace
func simGen(s *Sim) int { return s.SearchGen }

//go:norace
func simAbort(s *Sim) { s.Abort = true }

func (out *ApiRunOut) noteApiArrival(sim *Sim, st *Step, active bool) {
	ph := phIdle
	if active {
		ph = phIter1
		if simBusy(sim) {
			ph = phBusyWait
		} else if simYieldsSinceStart(sim) > 200 {
			ph = phIterLow
		}
	} else if simLastEnd(sim) > 0 && sim.Now()-simLastEnd(sim) < 5_000_000 {
		ph = phJustEnded
	}
	tl := simTimers(sim)
	if tl > 3 {
		tl = 3
	}
	h := out.SigHash
	for _, c := range []byte(st.Op) {
		h = (h ^ uint64(c)) * 1099511628211
	}
	h = (h ^ uint64(ph)) * 1099511628211
	h = (h ^ uint64(tl)) * 1099511628211
	out.SigHash = h
	switch st.Op {
	case "start":
		if active {
			out.Faults["F6_start_while_running"]++
		}
		if ph == phJustEnded {
			out.Faults["F4_start_within_5ms_of_result"]++
		}
		if tl > 0 {
			out.Probes["timer_alive_at_next_start"]++
		}
	case "stop":
		if active {
			out.Faults["F1_cancel_running"]++
			if ph == phBusyWait {
				out.Probes["stop_in_busy_wait"]++
			}
		} else {
			out.Faults["F6_stop_when_idle"]++
		}
	case "ponderhit":
		if active {
			out.Faults["F5_ponderhit_running"]++
			if ph == phBusyWait {
				out.Probes["ponderhit_after_internal_completion"]++
			}
		} else {
			out.Faults["F6_ponderhit_idle"]++
		}
	case "newgame", "clearhash", "resize", "isready":
		if active {
			out.Faults["F6_"+st.Op+"_while_searching"]++
		}
	}
}

//go:norace
func simBusy(s *Sim) bool { return s.BusyWaiting }

//go:norace
func simInWindow(s *Sim) bool { return s.InResultWindow }

//go:norace
func simLastEnd(s *Sim) int64 { return s.LastEndT }

//go:norace
func simYieldsSinceStart(s *Sim) int64 { return s.Yields - s.YieldsAtStart }

// pvPlayable checks a space separated UCI move list from the root.
func pvPlayable(root *rules.Pos, pv string) string {
	p := root.Clone()
	for k, m := range strings.Fields(pv) {
		if err := p.Play(m); err != nil {
			return fmt.Sprintf("pv move %d (%s) illegal in %s", k+1, m, p.Fen())
		}
	}
	return ""
}

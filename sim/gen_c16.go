package verifsim

import (
	"fmt"
	"strings"

	"github.com/frankkopp/FrankyGo/verifsim/rules"
)

var numericExtremes = []string{"-1", "0", "9223372036854775807", "9223372036854775808", "1e9", "abc", "-0", "00012", "4294967296",
	"99999999999999999999", "-9223372036854775808", "1.5", "0x10", "+5", "२"}
var junkTokens = []string{"foo", "moves", "fen", "value", "name", "go", "position", "startpos", "depth", "-", "--", "e2e4", "e7e8q", "a1a1", "z9z9", "\x00", "é", "\xff\xfe", "\t", "searchmoves", "infinite", "ponder"}

// DamageLine applies one transport corruption (fault kind F7) to a command
// line and returns the damaged line and the name of the corruption.
func DamageLine(line string, rng *PRNG) (string, string) {
	d, kind := damageLineOnce(line, rng)
	if rng.Intn(100) < 15 {
		// the spelling of keywords varies on top of the corruption (a
		// sender with its own idea of upper and lower case)
		tok := strings.Fields(d)
		for i, t := range tok {
			if len(t) == 0 || strings.Contains(t, "/") {
				continue
			}
			switch rng.Intn(6) {
			case 0:
				tok[i] = strings.ToUpper(t[:1]) + t[1:]
			case 1:
				tok[i] = strings.ToUpper(t)
			case 2:
				k := rng.Intn(len(t))
				tok[i] = t[:k] + strings.ToUpper(t[k:k+1]) + t[k+1:]
			}
		}
		if len(tok) > 0 {
			return strings.Join(tok, " "), kind + "+case"
		}
	}
	return d, kind
}

func damageLineOnce(line string, rng *PRNG) (string, string) {
	tok := strings.Fields(line)
	if len(tok) == 0 {
		return "   ", "blank"
	}
	for tries := 0; tries < 8; tries++ {
		switch rng.Intn(17) {
		case 16: // an option value that is no value of the option's type
			vi := -1
			for i, t := range tok {
				if t == "value" && i+1 < len(tok) {
					vi = i + 1
				}
			}
			if vi < 0 {
				continue
			}
			t := append([]string{}, tok...)
			t[vi] = []string{"maybe", "tru", "yes", "on", "2", "-", "true1", "fals"}[rng.Intn(8)]
			return strings.Join(t, " "), "option_value_invalid"
		case 15: // the promotion piece of a move is lost or garbled
			var idx []int
			for i, t := range tok {
				if len(t) == 5 && t[0] >= 'a' && t[0] <= 'h' && (t[1] == '7' || t[1] == '2') && (t[3] == '8' || t[3] == '1') {
					idx = append(idx, i)
				}
			}
			if len(idx) == 0 {
				continue
			}
			t := append([]string{}, tok...)
			i := idx[rng.Intn(len(idx))]
			t[i] = t[i][:4] + []string{"", "k", "x", "Q ", "="}[rng.Intn(5)]
			return strings.Join(strings.Fields(strings.Join(t, " ")), " "), "promotion_piece_lost"
		case 0: // truncate at a token boundary
			if len(tok) < 2 {
				continue
			}
			k := rng.Range(1, len(tok)-1)
			return strings.Join(tok[:k], " "), "truncate_token"
		case 1: // truncate at a byte
			if len(line) < 2 {
				continue
			}
			return line[:rng.Range(1, len(line)-1)], "truncate_byte"
		case 2: // drop a token
			if len(tok) < 2 {
				continue
			}
			i := rng.Intn(len(tok))
			return strings.Join(append(append([]string{}, tok[:i]...), tok[i+1:]...), " "), "drop_token"
		case 3: // duplicate a token
			i := rng.Intn(len(tok))
			t := append(append([]string{}, tok[:i+1]...), tok[i:]...)
			return strings.Join(t, " "), "dup_token"
		case 4: // swap neighbours
			if len(tok) < 2 {
				continue
			}
			i := rng.Intn(len(tok) - 1)
			t := append([]string{}, tok...)
			t[i], t[i+1] = t[i+1], t[i]
			return strings.Join(t, " "), "swap_tokens"
		case 5: // numeric extreme
			var idx []int
			for i, t := range tok {
				if len(t) > 0 && t[0] >= '0' && t[0] <= '9' && !strings.Contains(t, "/") {
					idx = append(idx, i)
				}
			}
			if len(idx) == 0 {
				continue
			}
			t := append([]string{}, tok...)
			ext := numericExtremes
			if strings.Contains(line, "Hash") {
				// never ask the engine for gigabytes (the sandbox has no memory limit)
				ext = []string{"-1", "0", "abc", "-0", "00012", "1.5", "+5", "0x10"}
			}
			t[idx[rng.Intn(len(idx))]] = ext[rng.Intn(len(ext))]
			return strings.Join(t, " "), "numeric_extreme"
		case 6: // numeric token removed entirely (value missing mid-line)
			var idx []int
			for i, t := range tok {
				if len(t) > 0 && t[0] >= '0' && t[0] <= '9' && !strings.Contains(t, "/") {
					idx = append(idx, i)
				}
			}
			if len(idx) == 0 {
				continue
			}
			i := idx[rng.Intn(len(idx))]
			return strings.Join(append(append([]string{}, tok[:i]...), tok[i+1:]...), " "), "value_missing"
		case 7: // insert junk token
			i := rng.Intn(len(tok) + 1)
			j := junkTokens[rng.Intn(len(junkTokens))]
			t := append(append(append([]string{}, tok[:i]...), j), tok[i:]...)
			return strings.Join(t, " "), "junk_token"
		case 8: // whitespace variants
			switch rng.Intn(4) {
			case 0:
				return strings.Join(tok, "\t"), "tabs"
			case 1:
				return line + "\r", "trailing_cr"
			case 2:
				return "  " + strings.Join(tok, "   ") + "  ", "extra_spaces"
			default:
				return strings.Join(tok, []string{" \t ", "\f", "\u00a0", "\v", "\u3000"}[rng.Intn(5)]), "mixed_ws"
			}
		case 9: // bytes inside a token
			i := rng.Intn(len(tok))
			t := append([]string{}, tok...)
			b := []string{"\x00", "\x7f", "é", "\xff\xfe", "\x1b[0m", "\u2028", "\f", "\v", "\u00a0", "\u3000"}[rng.Intn(10)]
			p := rng.Intn(len(t[i]) + 1)
			t[i] = t[i][:p] + b + t[i][p:]
			return strings.Join(t, " "), "bytes_in_token"
		case 10: // only the command word
			return tok[0], "command_only"
		case 11: // empty / blank
			return []string{"", " ", "\t", "\r", "\f", "\v", "\u00a0", "\u3000", "\u0085", "\u2028", "\t\f\t", " \u00a0 ", "\v\v"}[rng.Intn(13)], "blank"
		case 12: // upper case
			return strings.ToUpper(line), "upper_case"
		case 13: // FEN payload damage (F8)
			if tok[0] != "position" || len(tok) < 3 || tok[1] != "fen" {
				continue
			}
			end := len(tok)
			for i := 2; i < len(tok); i++ {
				if tok[i] == "moves" {
					end = i
					break
				}
			}
			fen := strings.Join(tok[2:end], " ")
			d, kind := DamageFen(fen, rng)
			rest := ""
			if end < len(tok) {
				rest = " " + strings.Join(tok[end:], " ")
			}
			return "position fen " + d + rest, "fen_" + kind
		case 14: // illegal / unreadable move inside a move list
			mi := -1
			for i, t := range tok {
				if t == "moves" || t == "searchmoves" {
					mi = i
				}
			}
			if mi < 0 || mi+1 >= len(tok) {
				continue
			}
			i := rng.Range(mi+1, len(tok)-1)
			t := append([]string{}, tok...)
			t[i] = []string{"e2e5", "a1a1", "zzzz", "e7e8k", "0000", "e2", "O-O", "e2e4e5", "h9h8"}[rng.Intn(9)]
			return strings.Join(t, " "), "bad_move"
		}
	}
	return line + " xyzzy", "junk_suffix"
}

// DamageFen applies one corruption (fault kind F8) to a FEN string.
func DamageFen(fen string, rng *PRNG) (string, string) {
	f := strings.Fields(fen)
	if len(f) == 0 {
		return "x", "empty"
	}
	ranks := strings.Split(f[0], "/")
	join := func() string { return strings.Join(append([]string{strings.Join(ranks, "/")}, f[1:]...), " ") }
	for tries := 0; tries < 8; tries++ {
		switch rng.Intn(19) {
		case 0: // rank overflow: digit past the edge
			i := rng.Intn(len(ranks))
			ranks[i] = ranks[i] + []string{"1", "8", "9", "p", "PPPP"}[rng.Intn(5)]
			return join(), "rank_overflow"
		case 1: // a 9
			i := rng.Intn(len(ranks))
			ranks[i] = "9"
			return join(), "digit_9"
		case 2: // missing rank
			if len(ranks) < 2 {
				continue
			}
			i := rng.Intn(len(ranks))
			ranks = append(ranks[:i], ranks[i+1:]...)
			return join(), "missing_rank"
		case 3: // extra rank
			ranks = append(ranks, "8")
			return join(), "extra_rank"
		case 4: // short rank
			i := rng.Intn(len(ranks))
			if len(ranks[i]) < 2 {
				ranks[i] = "7"
			} else {
				ranks[i] = ranks[i][:len(ranks[i])-1]
			}
			return join(), "short_rank"
		case 5: // missing king
			r := strings.NewReplacer("k", "1", "K", "1")
			f[0] = r.Replace(f[0])
			return strings.Join(f, " "), "missing_king"
		case 6: // many pawns
			f[0] = "pppppppp/pppppppp/pppppppp/pppppppp/PPPPPPPP/PPPPPPPP/PPPPPPPP/PPPPPPPPP"
			return strings.Join(f, " "), "pawn_flood"
		case 7: // bad side
			if len(f) < 2 {
				continue
			}
			f[1] = []string{"x", "W", "wb", "", "-"}[rng.Intn(5)]
			return strings.Join(f, " "), "bad_side"
		case 8: // bad castling
			if len(f) < 3 {
				continue
			}
			f[2] = []string{"KQkqK", "X", "kqKQ", "AHah", "--"}[rng.Intn(5)]
			return strings.Join(f, " "), "bad_castling"
		case 9: // bad ep
			if len(f) < 4 {
				continue
			}
			f[3] = []string{"e9", "i3", "e", "33", "a0", "h8h8", "e4"}[rng.Intn(7)]
			return strings.Join(f, " "), "bad_ep"
		case 10: // bad counters
			if len(f) < 6 {
				continue
			}
			i := 4 + rng.Intn(2)
			f[i] = numericExtremes[rng.Intn(len(numericExtremes))]
			return strings.Join(f, " "), "bad_counter"
		case 11: // truncated at a field
			if len(f) < 2 {
				continue
			}
			return strings.Join(f[:rng.Range(1, len(f)-1)], " "), "truncated_fields"
		case 12: // truncated at a byte
			return fen[:rng.Range(1, len(fen)-1)], "truncated_byte"
		case 13: // invalid piece characters
			i := rng.Intn(len(ranks))
			ranks[i] = []string{"xxxxxxxx", "8x", "pP?pPpPp", "४४", "1-6"}[rng.Intn(5)]
			return join(), "bad_chars"
		case 18: // material no game can produce (one king each, geometry fine)
			f[0] = []string{
				"qqqqkqqq/qqqqqqqq/qqqqqqqq/pppppppp/8/8/8/4K3",
				"4k3/8/8/8/PPPPPPPP/QQQQQQQQ/QQQQQQQQ/QQQQKQQQ",
				"rrrrkrrr/rrrrrrrr/8/8/8/8/8/4K3",
				"4k3/8/8/8/8/NNNNNNNN/BBBBBBBB/QQQQKQQQ",
				"qqqqkqqq/qqqqqqqq/qqqqqqqq/qqqqqqqq/8/8/7P/4K3",
			}[rng.Intn(5)]
			return strings.Join(f, " "), "impossible_material"
		case 14: // en passant square anywhere on the board (edge ranks, wrong rank for the side to move, no pawn)
			if len(f) < 4 {
				continue
			}
			f[3] = string(rune('a'+rng.Intn(8))) + string(rune('1'+rng.Intn(8)))
			if rng.Chance(0.4) {
				f[3] = string(rune('a'+rng.Intn(8))) + []string{"1", "8"}[rng.Intn(2)]
			}
			return strings.Join(f, " "), "ep_anywhere"
		case 15: // side to move flipped (the side not to move may be in check)
			if len(f) < 2 {
				continue
			}
			if f[1] == "w" {
				f[1] = "b"
			} else {
				f[1] = "w"
			}
			return strings.Join(f, " "), "side_flipped"
		case 16: // castling rights unrelated to the board
			if len(f) < 3 {
				continue
			}
			f[2] = []string{"KQkq", "K", "Q", "k", "q", "Kq", "Qk", "KQ", "kq"}[rng.Intn(9)]
			return strings.Join(f, " "), "castling_unrelated"
		case 17: // one piece letter replaced by another
			b := []byte(f[0])
			var idx []int
			for i, c := range b {
				if (c >= 'a' && c <= 'z') || (c >= 'A' && c <= 'Z') {
					idx = append(idx, i)
				}
			}
			if len(idx) == 0 {
				continue
			}
			b[idx[rng.Intn(len(idx))]] = "pnbrqkPNBRQK"[rng.Intn(12)]
			f[0] = string(b)
			return strings.Join(f, " "), "piece_replaced"
		}
	}
	return fen + " 1", "extra_field"
}

// GenC16Session generates a session in which command lines are damaged in
// flight. After every damaged line the GUI probes the engine with isready
// and later with a valid position / go depth 1 pair.
func GenC16Session(seed uint64) *Scenario {
	rng := NewPRNG(seed, "scenario/C16")
	dupRng := NewPRNG(seed, "duplicate/C16")
	sc := &Scenario{Prop: "C16", Kind: "uci", Seed: seed, Checks: []string{"c16", "c12", "c05"}, PollUs: 50}
	sc.Cost = GenCost(rng, 20000, false)
	optNow := map[string]string{}
	for _, o := range EngineOptions {
		optNow[o.Name] = o.Default
	}
	rate := []float64{0.05, 0.15, 0.3, 0.5}[rng.Intn(4)]
	maxD := maxDepthFor(sc.Cost.Every)
	if maxD > 4 {
		maxD = 4
	}
	add := func(gap int64, op, line string) *Step {
		sc.Steps = append(sc.Steps, Step{GapUs: gap, Op: op, Line: line})
		return &sc.Steps[len(sc.Steps)-1]
	}
	probe := func() {
		add(int64(rng.Range(1, 50)), "send", "isready")
		add(0, "wait_ready", "").MaxMs = 50
	}
	// emit sends the line intact or damaged. Returns true if it went out intact.
	emit := func(gap int64, line string) bool {
		if !rng.Chance(rate) {
			add(gap, "send", line)
			return true
		}
		d, kind := DamageLine(line, rng)
		if rng.Intn(400) == 0 {
			d, kind = line+" "+strings.Repeat("x", 70000), "overlong"
		}
		audit := strings.HasPrefix(line, "setoption name ") && kind != "overlong"
		if audit {
			// the engine's own configuration print-out before and after the damaged line
			add(gap, "send", "setoption name Print Config")
			gap = 20
		}
		st := add(gap, "damaged", d)
		if audit {
			add(20, "send", "setoption name Print Config")
		}
		st.Orig = line
		st.Fault = "F7_" + kind
		if cmd0 := strings.Fields(line)[0]; !audit && kind != "overlong" && cmd0 != "go" && !strings.HasPrefix(strings.TrimSpace(d), "go") && dupRng.Chance(0.3) {
			// duplicated delivery: the very same damaged line arrives once
			// more (a sender that repeats what was not acknowledged). Drawn
			// from a stream of its own.
			st2 := add(int64(dupRng.Range(0, 3000)), "damaged", d)
			st2.Orig = line
			st2.Fault = "F7_duplicate_line"
		}
		cmd := strings.Fields(line)[0]
		if cmd == "go" || strings.HasPrefix(strings.TrimSpace(d), "go") {
			// the damaged line may have started a search: stop it
			add(int64(rng.Intn(2000)), "send", "stop")
		}
		probe()
		return false
	}
	add(100, "send", "uci")
	probe()
	if !emit(20, fmt.Sprintf("setoption name Hash value %d", []int{1, 2, 4}[rng.Intn(3)])) {
		add(20, "send", "setoption name Hash value 2")
	}
	for _, o := range EngineOptions {
		if o.Type == "check" && o.Name != "Use_Book" && rng.Chance(0.08) {
			v := "true"
			if o.Default == "true" {
				v = "false"
			}
			if emit(20, fmt.Sprintf("setoption name %s value %s", o.Name, v)) {
				optNow[o.Name] = v
			}
		}
	}
	probe()
	n := rng.Range(3, 7)
	lastPos := ""
	var lastRoot *rules.Pos
	for s := 0; s < n; s++ {
		if rng.Intn(100) < 5 {
			// the handler's own perft command with a depth no move list can hold
			st := add(gapAfterResult(rng), "damaged", "perft "+[]string{"700", "1000000", "9223372036854775807", "99999999999999999999"}[rng.Intn(4)])
			st.Orig, st.Fault = "perft 1", "F7_perft_depth_out_of_range"
			add(int64(rng.Intn(2000)), "send", "stop")
			probe()
		}
		if s > 0 && rng.Intn(100) < 10 {
			// option values at the edge of the announced range (Hash: min 0)
			emit(gapAfterResult(rng), fmt.Sprintf("setoption name Hash value %d", []int{0, 0, 1, 3}[rng.Intn(4)]))
		}
		posCmd, root := genPosition(rng, 3)
		if lastPos != "" && lastRoot != nil && rng.Chance(0.35) && len(lastRoot.LegalMoves()) > 0 {
			// a game in progress: the same start with the move list extended by a few moves
			q := lastRoot.Clone()
			ext := Playout(q, rng.Range(1, 4), rng)
			// (the engine documents a capacity of 512 plies per game: a longer
			// move list is not a valid command any more)
			if len(ext) > 0 && len(q.LegalMoves()) > 0 && len(strings.Fields(lastPos))+len(ext) < 500 {
				if strings.Contains(lastPos, " moves ") {
					posCmd = lastPos + " " + strings.Join(ext, " ")
				} else {
					posCmd = lastPos + " moves " + strings.Join(ext, " ")
				}
				root = q
			}
		}
		lastPos, lastRoot = posCmd, root.Clone()
		if rng.Intn(60) == 0 {
			// a very long (but legal) game: more plies than any real game has
			// (beyond the engine's documented capacity of 512 plies: the engine
			// may refuse it, but must not crash - treated like a damaged line)
			p := rules.MustFen(rules.StartFen)
			ms := Playout(p, rng.Range(500, 700), rng)
			st := add(gapAfterResult(rng), "damaged", "position startpos moves "+strings.Join(ms, " "))
			st.Orig, st.Fault = "position startpos", "F7_overlong_game"
			probe()
		}
		if strings.HasPrefix(posCmd, "position startpos") && rng.Chance(0.5) {
			posCmd = strings.Replace(posCmd, "position startpos", "position fen "+rules.StartFen, 1)
		}
		okPos := emit(gapAfterResult(rng), posCmd)
		rootKnown := okPos
		if !okPos && rng.Chance(0.5) {
			rootKnown = true
			// recovery: a valid position so that the session can go on
			// (otherwise the following go searches whatever position the
			// engine holds after the damaged line, possibly one it accepted
			// from the damaged text)
			posCmd, root = genPosition(rng, 0)
			add(int64(rng.Intn(200)), "send", posCmd)
		}
		_ = root
		var goLine string
		selfLimit := true
		switch rng.Intn(7) {
		case 6:
			// a list of root moves, possibly naming a move twice
			goLine = fmt.Sprintf("go depth %d", rng.Range(1, maxD))
			if lm := root.LegalMoves(); len(lm) > 0 && rootKnown {
				var ms []string
				var promos []string
				for _, m := range lm {
					if u := m.String(); len(u) == 5 {
						promos = append(promos, u)
					}
				}
				for k := rng.Range(1, 3); k > 0; k-- {
					if len(promos) > 0 && rng.Chance(0.6) {
						ms = append(ms, promos[rng.Intn(len(promos))])
					} else {
						ms = append(ms, lm[rng.Intn(len(lm))].String())
					}
				}
				if rng.Chance(0.4) {
					ms = append(ms, ms[rng.Intn(len(ms))])
				}
				goLine += " searchmoves " + strings.Join(ms, " ")
			}
		case 0:
			goLine = fmt.Sprintf("go depth %d", rng.Range(1, maxD))
		case 1:
			goLine = fmt.Sprintf("go nodes %d", rng.LogRange(1, 5000))
		case 2:
			goLine = fmt.Sprintf("go movetime %d", rng.LogRange(1, 100))
		case 3:
			goLine = fmt.Sprintf("go wtime %d btime %d winc %d binc %d movestogo %d", rng.LogRange(40, 3000), rng.LogRange(40, 3000), rng.Intn(100), rng.Intn(100), rng.Range(1, 30))
		case 4:
			goLine = "go infinite"
			selfLimit = false
		default:
			goLine = fmt.Sprintf("go ponder wtime %d btime %d", rng.LogRange(100, 3000), rng.LogRange(100, 3000))
			selfLimit = false
		}
		if emit(int64(rng.Intn(300)), goLine) {
			// an option changed while the search runs (the protocol asks a GUI
			// to do that only while the engine waits - so it is one more line
			// the engine must survive)
			if rng.Chance(0.12) {
				name := "Use_Hash"
				if rng.Chance(0.6) {
					var checks []string
					for _, o := range EngineOptions {
						if o.Type == "check" && o.Name != "Use_Book" {
							checks = append(checks, o.Name)
						}
					}
					name = checks[rng.Intn(len(checks))]
				}
				v := "true"
				if strings.EqualFold(optNow[name], "true") {
					v = "false"
				}
				optNow[name] = v
				st := add(rng.LogRange(1, 5000), "damaged", fmt.Sprintf("setoption name %s value %s", name, v))
				st.Orig, st.Fault = "isready", "F6_setoption_while_searching"
				probe()
			}
			// damaged lines while the search runs
			if rng.Chance(0.4) {
				junk := []string{"isready", "position startpos", "setoption name Hash value 4", "ponderhit", "stop", "debug on", "register later", "ucinewgame"}[rng.Intn(8)]
				d, kind := DamageLine(junk, rng)
				if kd := strings.Fields(d); len(kd) > 0 && (kd[0] == "stop" || kd[0] == "ucinewgame" || kd[0] == "position" || kd[0] == "setoption" || kd[0] == "ponderhit" || kd[0] == "go" || kd[0] == "quit") {
					// would legitimately change the session state; keep only harmless noise mid-search
					d, kind = "xyzzy "+d, "noise_prefix"
				}
				st := add(rng.LogRange(1, 5000), "damaged", d)
				st.Orig, st.Fault = junk, "F7_"+kind
				probe()
			}
			if selfLimit {
				add(0, "wait_best", "").MaxMs = 120000
			} else {
				add(rng.LogRange(5, 50000), "send", "stop")
				add(0, "wait_best", "").MaxMs = 2000
			}
		} else {
			// the go was damaged; recovery search
			add(int64(rng.Intn(200)), "send", "go depth 1")
			add(0, "wait_best", "").MaxMs = 60000
		}
	}
	return sc
}

package verifsim

import (
	"bufio"
	"fmt"
	"runtime"
	"strings"

	"github.com/frankkopp/FrankyGo/internal/uci"
)

// HistLine is one line of the session history: a command received by the
// engine's protocol loop ("in") or a line written by the engine ("out").
type HistLine struct {
	Seq  int    `json:"seq"`
	T    int64  `json:"t_ns"`
	In   bool   `json:"in"`
	Text string `json:"text"`
}

// transport is the simulated stdin/stdout pair. It is touched from engine
// goroutines (Read on the loop goroutine, Write on the loop or search
// goroutine), so everything is //go:norace and free of synchronisation; the
// slot scheduler guarantees exclusive access.
type transport struct {
	sim     *Sim
	ch      chan inLine
	rest    []byte
	hist    []HistLine
	partial []byte
	seq     int
	nBest   int
	nReady  int
	nOut    int
	nIn     int
	curIter int
}

// inLine is a command line with the instant at which the GUI offered it.
type inLine struct {
	b     []byte
	at    int64
	canon string // what the history records (the line without the extra white space it travels with)
}

func newTransport(sim *Sim) *transport {
	return &transport{sim: sim, ch: make(chan inLine), hist: make([]HistLine, 0, 256)}
}

// Read delivers one line per call, blocking (durably, inside the bubble)
// until the GUI hands one over.
func (tr *transport) Read(p []byte) (int, error) {
	if len(tr.rest) == 0 {
		m := <-tr.ch
		b := m.b
		if tr.sim.Now() != m.at {
			// the line had been waiting while the loop was busy (a command that
			// blocks, e.g. go during a slow search set-up): the loop takes it
			// over in an instant of its own, not in the instant of whichever
			// engine goroutine released it
			tr.sim.ActorSleep(offLoop, 1)
		}
		if m.canon != "" {
			tr.noteIn([]byte(m.canon + "\n"))
		} else {
			tr.noteIn(b)
		}
		tr.rest = b
	}
	n := copy(p, tr.rest)
	tr.rest = tr.rest[n:]
	return n, nil
}

//go:norace
func (tr *transport) noteIn(b []byte) {
	txt := strings.TrimRight(string(b), "\n")
	if len(txt) > 6000 {
		txt = txt[:6000] + fmt.Sprintf("...(%d bytes)", len(b))
	}
	harnessLock()
	tr.seq++
	tr.nIn++
	tr.hist = append(tr.hist, HistLine{Seq: tr.seq, T: tr.sim.Now(), In: true, Text: txt})
	harnessUnlock()
	tr.sim.record(EvSend, 0)
	tr.sim.MixHash([]byte(txt))
}

// Write records complete output lines.
//
//go:norace
func (tr *transport) Write(b []byte) (int, error) {
	harnessLock()
	defer harnessUnlock()
	tr.partial = append(tr.partial, b...)
	for {
		i := indexByte(tr.partial, '\n')
		if i < 0 {
			break
		}
		line := string(tr.partial[:i])
		tr.partial = tr.partial[i+1:]
		tr.seq++
		tr.nOut++
		tr.hist = append(tr.hist, HistLine{Seq: tr.seq, T: tr.sim.Now(), In: false, Text: line})
		if strings.HasPrefix(line, "info depth") {
			tr.curIter++
		}
		if strings.HasPrefix(line, "bestmove") {
			tr.curIter = 0
			tr.nBest++
		} else if line == "readyok" {
			tr.nReady++
		}
		harnessUnlock()
		tr.sim.record(EvOut, 0)
		tr.sim.MixHash([]byte(line))
		harnessLock()
	}
	return len(b), nil
}

//go:norace
func indexByte(b []byte, c byte) int {
	for i, x := range b {
		if x == c {
			return i
		}
	}
	return -1
}

//go:norace
func (tr *transport) counts() (best, ready, out int) { return tr.nBest, tr.nReady, tr.nOut }

//go:norace
func (tr *transport) histLen() int { return len(tr.hist) }

//go:norace
func (tr *transport) inCount() int { return tr.nIn }

//go:norace
func (tr *transport) iterNow() int { return tr.curIter + 1 }

//go:norace
func (tr *transport) histAt(i int) HistLine { return tr.hist[i] }

// UciSession is a running engine behind the simulated transport.
type UciSession struct {
	Sim     *Sim
	tr      *transport
	H       *uci.UciHandler
	loopEnd chan string
	// LoopPanics collects panics of the protocol loop goroutine.
	LoopPanics []string
	Plain      bool // plain (non -race) build: engine state accessors may be used
}

// NewUciSession creates the engine and starts its protocol loop.
func NewUciSession(sim *Sim) *UciSession {
	us := &UciSession{Sim: sim, tr: newTransport(sim), loopEnd: make(chan string, 1), Plain: !raceEnabled}
	us.H = uci.NewUciHandler()
	sc := bufio.NewScanner(us.tr)
	us.H.InIo = sc
	us.H.OutIo = bufio.NewWriter(us.tr)
	us.startLoop()
	return us
}

func (us *UciSession) startLoop() {
	go func() {
		msg := ""
		defer func() {
			if r := recover(); r != nil {
				buf := make([]byte, 4096)
				n := runtime.Stack(buf, false)
				msg = fmt.Sprintf("panic: %v\n%s", r, firstEngineFrames(string(buf[:n])))
			}
			us.loopEnd <- msg
		}()
		us.H.Loop()
	}()
}

func firstEngineFrames(stack string) string {
	var out []string
	for _, l := range strings.Split(stack, "\n") {
		if strings.Contains(l, "FrankyGo/internal") && !strings.HasPrefix(l, "\t") {
			out = append(out, strings.TrimSpace(l))
			if len(out) >= 4 {
				break
			}
		}
	}
	return strings.Join(out, " <- ")
}

// Send hands a line to the protocol loop. It blocks until the loop
// goroutine reads it. Returns false if the loop has ended (panic or quit).
func (us *UciSession) Send(line string) bool { return us.SendWs(line, 0) }

// SendWs hands over a line with extra white space (see Step.Ws).
func (us *UciSession) SendWs(line string, ws int) bool {
	at := us.Sim.Now()
	raw, canon := line, ""
	if ws > 0 {
		tok := strings.Fields(line)
		canon = line
		switch ws {
		case 1:
			raw = line + " "
		case 2:
			raw = " " + line
		case 3:
			raw = strings.Join(tok, "  ")
		case 4:
			raw = strings.Join(tok, "\t")
		default:
			raw = "\t" + line + "  "
		}
	}
	select {
	case us.tr.ch <- inLine{b: []byte(raw + "\n"), at: at, canon: canon}:
		if us.Sim.Now() != at {
			// the loop was busy and takes the line over on its own lattice:
			// the GUI resumes one lattice step after that instant
			us.Sim.sleepUntil(us.Sim.ActorWake(offLoop, 1) + latticeStep - offLoop + offGUI)
		}
		return true
	case msg := <-us.loopEnd:
		// the loop ended before it could read the line
		if msg != "" {
			us.LoopPanics = append(us.LoopPanics, msg)
		}
		us.loopEnd <- msg
		return false
	}
}

// LoopEnded reports whether the loop goroutine has ended, and its panic message.
func (us *UciSession) LoopEnded() (bool, string) {
	select {
	case msg := <-us.loopEnd:
		us.loopEnd <- msg
		return true, msg
	default:
		return false, ""
	}
}

// RestartLoop starts a new protocol loop on the same handler after a panic.
func (us *UciSession) RestartLoop() {
	select {
	case <-us.loopEnd:
	default:
	}
	// the scanner may be in a bad state; give the handler a new one
	us.tr.rest = nil
	us.H.InIo = bufio.NewScanner(us.tr)
	us.startLoop()
}

// Counts returns the number of bestmove lines, readyok lines and output lines so far.
func (us *UciSession) Counts() (best, ready, out int) { return us.tr.counts() }

// History returns a copy of the session history.
func (us *UciSession) History() []HistLine {
	n := us.tr.histLen()
	h := make([]HistLine, n)
	for i := 0; i < n; i++ {
		h[i] = us.tr.histAt(i)
	}
	return h
}

// PositionFen returns the FEN of the handler's position (plain build only).
func (us *UciSession) PositionFen() string {
	if !us.Plain {
		return ""
	}
	return us.H.VerifPositionFen()
}

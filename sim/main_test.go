package verifsim

import (
	"bufio"
	"encoding/json"
	"fmt"
	"os"
	"runtime"
	"sort"
	"strings"
	"testing"
	"time"
)

func TestMain(m *testing.M) {
	if raceEnabled {
		// see race_on.go: no harness locking in race builds
		runtime.GOMAXPROCS(1)
	}
	if err := InitHarness(); err != nil {
		fmt.Fprintln(os.Stderr, "harness init:", err)
		os.Exit(2)
	}
	os.Exit(m.Run())
}

// TestWorker runs a batch of seeds (VERIF_PROP, VERIF_FROM, VERIF_COUNT) or
// replays a scenario file (VERIF_REPLAY) and appends one JSON line per run to
// VERIF_OUT.
func TestWorker(t *testing.T) {
	outPath := os.Getenv("VERIF_OUT")
	if outPath == "" {
		t.Skip("VERIF_OUT not set")
	}
	f, err := os.OpenFile(outPath, os.O_CREATE|os.O_WRONLY|os.O_APPEND, 0o644)
	if err != nil {
		t.Fatal(err)
	}
	defer f.Close()
	w := bufio.NewWriter(f)
	emit := func(r *RunResult) {
		b, _ := json.Marshal(r)
		w.Write(b)
		w.WriteByte('\n')
		w.Flush()
	}
	if rp := os.Getenv("VERIF_REPLAY"); rp != "" {
		sc, err := LoadScenario(rp)
		if err != nil {
			t.Fatal(err)
		}
		fmt.Fprintf(os.Stderr, "### seed %d start\n", sc.Seed)
		cancel := startWatchdog(sc, emit)
		res := RunScenario(t, sc)
		cancel()
		if debugTrace {
			sort.Strings(debugLog)
			for _, l := range debugLog {
				fmt.Fprintln(os.Stderr, "TRACE", l)
			}
		}
		res.Scenario = sc
		emit(res)
		return
	}
	prop := os.Getenv("VERIF_PROP")
	from := uint64(envInt("VERIF_FROM", 1))
	count := uint64(envInt("VERIF_COUNT", 1))
	keep := envInt("VERIF_KEEP_SCENARIOS", 0) != 0
	for seed := from; seed < from+count; seed++ {
		sc := Generate(prop, seed)
		fmt.Fprintf(os.Stderr, "### seed %d start\n", seed)
		cancel := startWatchdog(sc, emit)
		res := RunScenario(t, sc)
		cancel()
		if debugTrace {
			sort.Strings(debugLog)
			for _, l := range debugLog {
				fmt.Fprintln(os.Stderr, "TRACE", l)
			}
		}
		if len(res.Violations) > 0 || res.Harness != "" || keep {
			res.Scenario = sc
		}
		emit(res)
		if res.ExitAfter {
			os.Exit(7)
		}
	}
}

// TestDump prints the scenario generated for VERIF_PROP / VERIF_FROM.
func TestDump(t *testing.T) {
	if os.Getenv("VERIF_DUMP") == "" {
		t.Skip()
	}
	sc := Generate(os.Getenv("VERIF_PROP"), uint64(envInt("VERIF_FROM", 1)))
	b, _ := json.MarshalIndent(sc, "", " ")
	fmt.Fprintln(os.Stderr, string(b))
}

// startWatchdog guards one run with a wall-clock limit (the only place the
// harness reads real time). A CPU spin inside the bubble is invisible to the
// fake clock; when the limit expires the watchdog looks at the goroutine
// dump: a protocol loop spinning on an ended input scanner is classified,
// anything else is reported as inconclusive. The worker then exits and the
// driver continues with the remaining seeds.
func startWatchdog(sc *Scenario, emit func(*RunResult)) func() {
	limit := time.Duration(envInt("VERIF_RUN_WALL_S", 90)) * time.Second
	done := make(chan struct{})
	go func() {
		select {
		case <-done:
			return
		case <-time.After(limit):
		}
		buf := make([]byte, 4<<20)
		n := runtime.Stack(buf, true)
		dump := string(buf[:n])
		res := &RunResult{Seed: sc.Seed, Prop: sc.Prop, Kind: sc.Kind, Scenario: sc, ExitAfter: true, WallMs: limit.Milliseconds()}
		spin := false
		for _, g := range strings.Split(dump, "\n\n") {
			if (strings.Contains(g, "[running") || strings.Contains(g, "[runnable")) && strings.Contains(g, "uci.(*UciHandler).loop") &&
				!strings.Contains(g, "handleReceivedCommand") {
				spin = true
			}
		}
		busyIn := loopBusyIn(dump)
		if !spin && busyIn != "" {
			// the protocol loop is on the CPU inside a command handler: look
			// again a little later - a handler that is still (or again) on the
			// CPU at the same place after this long never returns
			time.Sleep(3 * time.Second)
			n = runtime.Stack(buf, true)
			if again := loopBusyIn(string(buf[:n])); again != busyIn {
				busyIn = ""
			}
		}
		if spin {
			res.addViolation("C16", "loop_spin_after_input_end", "the protocol loop spins at full CPU after its input scanner ended (over-long line or end of input); the engine no longer reads commands")
		} else if busyIn != "" {
			prop := "C16"
			if sc.Prop == "C12" {
				prop = "C12"
			}
			res.addViolation(prop, "loop_unresponsive:"+busyIn, "the protocol loop has been on the CPU inside "+busyIn+" for more than "+limit.String()+" of real time without reading the next command (no fake time passes there): the engine has become unresponsive")
		} else {
			res.Harness = "wall-clock watchdog: run exceeded " + limit.String() + " | " + blockedEngineFrames(dump)
		}
		emit(res)
		os.Exit(7)
	}()
	return func() { close(done) }
}

// loopBusyIn returns the innermost engine function of the protocol loop
// goroutine if that goroutine is on the CPU (running or runnable) inside a
// command handler, else "".
func loopBusyIn(dump string) string {
	for _, g := range strings.Split(dump, "\n\n") {
		if !(strings.Contains(g, "[running") || strings.Contains(g, "[runnable")) {
			continue
		}
		if !strings.Contains(g, "uci.(*UciHandler).loop") || !strings.Contains(g, "handleReceivedCommand") {
			continue
		}
		for _, ln := range strings.Split(g, "\n") {
			ln = strings.TrimSpace(ln)
			// (the innermost frame of the handler itself: what it calls varies from look to look)
			if strings.HasPrefix(ln, "github.com/frankkopp/FrankyGo/internal/uci.(*UciHandler).") {
				f := strings.TrimPrefix(ln, "github.com/frankkopp/FrankyGo/internal/")
				if i := strings.LastIndex(f, "("); i > 0 {
					f = f[:i]
				}
				return f
			}
		}
	}
	return ""
}

//go:build !race

package verifsim

import "sync"

const raceEnabled = false

// In plain builds harness state shared between goroutines that run in the
// same fake instant (hand-off windows) is protected by a real mutex. It is
// never held across a sleep.
var harnessMu sync.Mutex

func harnessLock()   { harnessMu.Lock() }
func harnessUnlock() { harnessMu.Unlock() }

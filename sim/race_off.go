//go:build !race

package verifsim

const raceEnabled = false

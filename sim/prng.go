package verifsim

// A tiny PRNG (splitmix64) whose methods are //go:norace: the simulator draws
// from it on engine goroutines, and neither a mutex nor instrumented memory
// accesses may be introduced there (they would add happens-before edges or
// harness-side race reports). Exclusive access is guaranteed by the slot
// scheduler (one goroutine per fake instant).

type PRNG struct{ s uint64 }

//go:norace
func mix64(z uint64) uint64 {
	z += 0x9e3779b97f4a7c15
	z = (z ^ (z >> 30)) * 0xbf58476d1ce4e5b9
	z = (z ^ (z >> 27)) * 0x94d049bb133111eb
	return z ^ (z >> 31)
}

// NewPRNG derives an independent stream from a seed and a stream label.
func NewPRNG(seed uint64, stream string) *PRNG {
	h := mix64(seed)
	for i := 0; i < len(stream); i++ {
		h = mix64(h ^ uint64(stream[i]))
	}
	return &PRNG{s: h}
}

//go:norace
func (r *PRNG) Uint64() uint64 {
	r.s += 0x9e3779b97f4a7c15
	z := r.s
	z = (z ^ (z >> 30)) * 0xbf58476d1ce4e5b9
	z = (z ^ (z >> 27)) * 0x94d049bb133111eb
	return z ^ (z >> 31)
}

// Intn returns a value in [0,n). n must be > 0.
//
//go:norace
func (r *PRNG) Intn(n int) int {
	if n <= 1 {
		return 0
	}
	return int(r.Uint64() % uint64(n))
}

// Range returns a value in [lo,hi].
//
//go:norace
func (r *PRNG) Range(lo, hi int) int {
	if hi <= lo {
		return lo
	}
	return lo + r.Intn(hi-lo+1)
}

// Float returns a value in [0,1).
//
//go:norace
func (r *PRNG) Float() float64 {
	return float64(r.Uint64()>>11) / float64(1<<53)
}

// Chance returns true with probability p.
//
//go:norace
func (r *PRNG) Chance(p float64) bool { return r.Float() < p }

// Pick returns a random element index weight-proportionally.
func (r *PRNG) PickWeighted(w []int) int {
	t := 0
	for _, x := range w {
		t += x
	}
	if t <= 0 {
		return 0
	}
	k := r.Intn(t)
	for i, x := range w {
		if k < x {
			return i
		}
		k -= x
	}
	return len(w) - 1
}

// LogRange returns a log-uniform value in [lo,hi] (lo >= 1).
func (r *PRNG) LogRange(lo, hi int64) int64 {
	if hi <= lo {
		return lo
	}
	// choose a bit length uniformly, then a value of that length
	bl := func(x int64) int {
		n := 0
		for x > 0 {
			n++
			x >>= 1
		}
		return n
	}
	a, b := bl(lo), bl(hi)
	for i := 0; i < 64; i++ {
		l := a + r.Intn(b-a+1)
		var v int64
		if l <= 1 {
			v = 1
		} else {
			v = int64(1)<<(l-1) + int64(r.Uint64()%uint64(int64(1)<<(l-1)))
		}
		if v >= lo && v <= hi {
			return v
		}
	}
	return lo + int64(r.Uint64()%uint64(hi-lo+1))
}

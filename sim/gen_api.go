package verifsim

import (
	"strings"

	"github.com/frankkopp/FrankyGo/verifsim/rules"
)

// genRootFen draws a root as (fen, moves).
func genRootFen(rng *PRNG, terminalPct int) (string, []string, *rules.Pos) {
	if rng.Intn(100) < terminalPct {
		tr := TerminalRoots[rng.Intn(len(TerminalRoots))]
		if rng.Intn(100) < 25 {
			// the mating (or stalemating) move was the 100th half move without
			// capture or pawn move: the game has ended by that move, not by the clock
			p := rules.MustFen(tr.Fen)
			p.HalfMove = rng.Range(100, 130)
			p.FullMove = rng.Range(80, 150)
			return p.Fen(), nil, p
		}
		return tr.Fen, nil, rules.MustFen(tr.Fen)
	}
	fen := Corpus[rng.Intn(len(Corpus))]
	if rng.Chance(0.3) {
		fen = rules.StartFen
	}
	p := rules.MustFen(fen)
	n := []int{0, rng.Range(1, 4), rng.Range(4, 16), rng.Range(0, 30)}[rng.Intn(4)]
	ms := Playout(p, n, rng)
	for len(ms) > 0 && len(p.LegalMoves()) == 0 {
		p = rules.MustFen(fen)
		ms = ms[:len(ms)-1]
		for _, m := range ms {
			_ = p.Play(m)
		}
	}
	return fen, ms, p
}

// GenApiScript generates a lifecycle call sequence for the API front end.
func GenApiScript(prop string, seed uint64) *Scenario {
	rng := NewPRNG(seed, "api/"+prop)
	sc := &Scenario{Prop: prop, Kind: "api", Seed: seed, Checks: []string{"c14", "c05", "c07", "c13"}}
	smr := NewPRNG(seed, "api-searchmoves/"+prop)
	sc.Cost = GenCost(rng, 30000, true)
	maxD := maxDepthFor(sc.Cost.Every)
	perYieldNs := int64(sc.Cost.Every) * int64(sc.Cost.BaseNs)
	capUs := 60_000 * perYieldNs / 1000
	if capUs < 2000 {
		capUs = 2000
	}
	capMs := capUs / 1000
	clampMs := func(v, f int64) int64 {
		if v > capMs*f {
			v = capMs * f
		}
		if v < 1 {
			v = 1
		}
		return v
	}
	clampUs := func(v int64) int64 {
		if v > capUs {
			return capUs
		}
		return v
	}
	sc.Config = map[string]interface{}{"TTSize": []int{1, 2, 4}[rng.Intn(3)]}
	if rng.Chance(0.15) {
		sc.Config["UseTT"] = false
	}
	add := func(gap int64, op string) *Step {
		sc.Steps = append(sc.Steps, Step{GapUs: gap, Op: op})
		return &sc.Steps[len(sc.Steps)-1]
	}
	gap := func() int64 {
		switch rng.Intn(6) {
		case 0:
			return 0
		case 1:
			return int64(rng.Intn(50))
		case 2:
			return int64(rng.Range(50, 5000))
		case 3:
			return int64(rng.Range(1, 4)) * 5000
		case 4:
			return int64(rng.Range(4500, 5500))
		}
		return clampUs(rng.LogRange(100, 200000))
	}
	add(10, "isready")
	n := rng.Range(3, 9)
	for s := 0; s < n; s++ {
		termPct := 6
		if prop == "C07" {
			termPct = 40
		}
		fen, moves, root := genRootFen(rng, termPct)
		st := add(gap(), "start")
		st.Fen, st.Moves = fen, moves
		l := &LimitSpec{}
		mode := rng.PickWeighted([]int{3, 3, 5, 4, 5, 5})
		switch mode {
		case 0:
			l.Depth = rng.Range(1, maxD)
		case 1:
			l.Nodes = uint64(rng.LogRange(1, 20000))
		case 2:
			l.MoveTime = clampMs(rng.LogRange(1, 300), 1)
		case 3:
			l.WTime, l.BTime = clampMs(rng.LogRange(40, 20000), 20), clampMs(rng.LogRange(40, 20000), 20)
			if rng.Chance(0.5) {
				l.WInc, l.BInc = rng.LogRange(1, 1000), rng.LogRange(1, 1000)
			}
			if rng.Chance(0.4) {
				l.MovesToGo = rng.Range(1, 40)
			}
		case 4:
			l.Infinite = true
		case 5:
			l.Ponder = true
			if rng.Chance(0.3) {
				l.MoveTime = clampMs(rng.LogRange(5, 300), 1)
			} else {
				l.WTime, l.BTime = clampMs(rng.LogRange(100, 5000), 20), clampMs(rng.LogRange(100, 5000), 20)
			}
		}
		// searchmoves at API level: moves of the root and / or moves that are
		// not legal there (a list made for another position). Drawn from a
		// stream of its own so that the rest of the script does not depend on it.
		if lm := root.LegalMoves(); len(lm) > 0 && smr.Chance(0.15) {
			nl, ns := smr.Intn(4), smr.Intn(3)
			if nl+ns == 0 {
				ns = 1
			}
			seen := map[string]bool{}
			for k := 0; k < nl; k++ {
				m := lm[smr.Intn(len(lm))].String()
				if !seen[m] {
					seen[m] = true
					l.Moves = append(l.Moves, m)
				}
			}
			for k := 0; k < ns; k++ {
				for try := 0; try < 20; try++ {
					f, t := smr.Intn(64), smr.Intn(64)
					m := rules.SqName(f) + rules.SqName(t)
					if f == t || seen[m] {
						continue
					}
					if _, ok := root.ParseMove(m); ok {
						continue
					}
					// also no promotion move of the root with these squares
					prom := false
					for _, x := range lm {
						if strings.HasPrefix(x.String(), m) {
							prom = true
						}
					}
					if prom {
						continue
					}
					seen[m] = true
					l.Moves = append(l.Moves, m)
					break
				}
			}
			// order of the list is the caller's
			for k := len(l.Moves) - 1; k > 0; k-- {
				j := smr.Intn(k + 1)
				l.Moves[k], l.Moves[j] = l.Moves[j], l.Moves[k]
			}
		}
		st.Limits = l
		// calls while the search runs
		k := rng.Intn(4)
		for j := 0; j < k; j++ {
			switch rng.Intn(8) {
			case 0:
				add(gap(), "is_searching")
			case 1:
				add(gap(), "isready")
			case 2:
				add(gap(), "clearhash")
			case 3:
				add(gap(), "resize").Arg = []int{1, 2, 4}[rng.Intn(3)]
			case 4:
				add(gap(), "ponderhit")
			case 5:
				// start while running (must be rejected without blocking)
				f2, m2, _ := genRootFen(rng, 0)
				s2 := add(gap(), "start")
				s2.Fen, s2.Moves = f2, m2
				s2.Limits = &LimitSpec{Depth: rng.Range(1, 3)}
				s2.Fault = "F6"
			default:
				add(gap(), "is_searching")
			}
		}
		// end of the search
		if l.SelfLimiting() {
			switch rng.Intn(4) {
			case 0:
				add(gap(), "stop").Fault = "F1"
			case 1:
				add(gap(), "newgame")
			default:
				add(int64(rng.Intn(100)), "wait")
			}
		} else {
			if l.Ponder && rng.Chance(0.6) {
				add(gap(), "ponderhit").Fault = "F5"
				if rng.Chance(0.2) {
					add(int64(rng.Intn(3000)), "ponderhit").Fault = "F5"
				}
				if rng.Chance(0.4) {
					add(gap(), "stop").Fault = "F1"
				} else {
					add(int64(rng.Intn(100)), "wait")
				}
			} else {
				if rng.Chance(0.2) {
					add(gap(), "newgame")
				} else {
					add(gap(), "stop").Fault = "F1"
				}
			}
		}
		// idle-time calls
		for j := rng.Intn(3); j > 0; j-- {
			switch rng.Intn(7) {
			case 0:
				add(gap(), "stop")
			case 1:
				add(gap(), "ponderhit")
			case 2:
				add(gap(), "is_searching")
			case 3:
				add(gap(), "clearhash")
			case 4:
				add(gap(), "resize").Arg = []int{1, 2, 4}[rng.Intn(3)]
			case 5:
				add(gap(), "wait")
			case 6:
				add(gap(), "newgame")
			}
		}
	}
	return sc
}

package verifsim

import (
	"encoding/json"
	"os"
)

// Scenario is the complete, explicit description of one simulated run. A run
// is a pure function of its scenario (and of the engine code).
type Scenario struct {
	Prop   string                 `json:"prop"`           // property the scenario was generated for
	Kind   string                 `json:"kind"`           // "uci" | "api" | "game" | "book" | "cache" | "tt"
	Seed   uint64                 `json:"seed"`           // origin seed (sub-streams for cost jitter etc.)
	Note   string                 `json:"note,omitempty"` //
	Cost   CostModel              `json:"cost"`
	Config map[string]interface{} `json:"config,omitempty"`  // engine configuration fields set directly
	PollUs int64                  `json:"poll_us,omitempty"` // GUI polling period while waiting
	// Procs > 0: GOMAXPROCS for this run (only scenario kinds whose harness
	// needs no lock-free discipline on engine goroutines, i.e. "tt")
	Procs int       `json:"procs,omitempty"`
	Steps []Step    `json:"steps,omitempty"`
	Game  *GameSpec `json:"game,omitempty"`
	Book  *BookSpec `json:"book,omitempty"`
	TT    *TTSpec   `json:"tt,omitempty"`
	// Checks selects oracle groups (e.g. "c12", "c05", "c13", "c16"); empty = those of Prop.
	Checks []string `json:"checks,omitempty"`
	// Expect is filled by the driver when a scenario is stored as a replay file.
	Expect *Expectation `json:"expect,omitempty"`
}

// Expectation is what a replay must reproduce.
type Expectation struct {
	Class string `json:"class"`
	Hash  string `json:"trace_hash,omitempty"`
}

// Step is one action of a scripted front end.
type Step struct {
	// GapUs is the fake time to let pass before the step, counted from the
	// moment the previous step finished.
	GapUs int64 `json:"gap_us"`
	// Op: UCI front end: "send" (Line), "wait_best", "wait_ready", "damaged" (Line, Orig).
	//     API front end: "start","stop","wait","is_searching","ponderhit","newgame",
	//                    "clearhash","resize","isready".
	Op   string `json:"op"`
	Line string `json:"line,omitempty"`
	// Ws > 0: the line travels with extra white space the protocol allows
	// (1 trailing blank, 2 leading blank, 3 double blanks, 4 tabs, 5 leading tab and trailing blanks)
	Ws int `json:"ws,omitempty"`
	// Orig is the undamaged line a damaged line was derived from.
	Orig string `json:"orig,omitempty"`
	// MaxMs bounds a wait in fake milliseconds (0 = oracle default).
	MaxMs int64 `json:"max_ms,omitempty"`
	// API front end
	Fen    string     `json:"fen,omitempty"`
	Moves  []string   `json:"moves,omitempty"`
	Limits *LimitSpec `json:"limits,omitempty"`
	Arg    int        `json:"arg,omitempty"`
	// Fault label for evidence accounting (F1..F12), optional.
	Fault string `json:"fault,omitempty"`
}

// LimitSpec mirrors the engine's search limits in a JSON friendly way.
type LimitSpec struct {
	Infinite  bool     `json:"infinite,omitempty"`
	Ponder    bool     `json:"ponder,omitempty"`
	Mate      int      `json:"mate,omitempty"`
	Depth     int      `json:"depth,omitempty"`
	Nodes     uint64   `json:"nodes,omitempty"`
	MoveTime  int64    `json:"movetime_ms,omitempty"`
	WTime     int64    `json:"wtime_ms,omitempty"`
	BTime     int64    `json:"btime_ms,omitempty"`
	WInc      int64    `json:"winc_ms,omitempty"`
	BInc      int64    `json:"binc_ms,omitempty"`
	MovesToGo int      `json:"movestogo,omitempty"`
	Moves     []string `json:"searchmoves,omitempty"`
}

// SelfLimiting reports whether a search with these limits ends by itself.
func (l *LimitSpec) SelfLimiting() bool {
	if l.Infinite || l.Ponder {
		return false
	}
	return l.Depth > 0 || l.Nodes > 0 || l.MoveTime > 0 || l.WTime > 0 || l.BTime > 0
}

// TimeControlled reports whether the limits make the engine start a timer.
func (l *LimitSpec) TimeControlled() bool {
	return l.MoveTime > 0 || l.WTime > 0 || l.BTime > 0
}

// GameSpec describes a closed-loop simulated game (C13 clocks, C12 ponder).
type GameSpec struct {
	StartFen  string   `json:"start_fen"`
	Opening   []string `json:"opening,omitempty"` // moves played before the engine takes over
	Plies     int      `json:"plies"`             // engine moves to play (both sides are the engine)
	WTimeMs   int64    `json:"wtime_ms"`
	BTimeMs   int64    `json:"btime_ms"`
	WIncMs    int64    `json:"winc_ms"`
	BIncMs    int64    `json:"binc_ms"`
	MovesToGo int      `json:"movestogo"` // 0 = sudden death
	Ponder    bool     `json:"ponder"`    // use go ponder / ponderhit / stop flows
	HitPct    int      `json:"hit_pct"`   // probability a ponder move is "hit"
	GuiLagUs  int64    `json:"gui_lag_us"`
	UseBook   bool     `json:"use_book,omitempty"`
	// MoveTimeMs > 0: every move is searched with "go movetime" instead of the clocks
	MoveTimeMs int64 `json:"movetime_ms,omitempty"`
}

// BookSpec describes a book build / cache scenario (C19, C20).
type BookSpec struct {
	Games      [][]string `json:"games"`         // UCI move lists from the start position
	Bad        []BadMove  `json:"bad,omitempty"` // adversity: illegal/unreadable token inserted
	Format     string     `json:"format"`        // "Simple" | "San" | "Pgn" | "all"
	Strategy   int        `json:"strategy"`      // schedule strategy
	SchedSeeds []uint64   `json:"sched_seeds,omitempty"`
	Decor      uint64     `json:"decor_seed"` // PGN decoration seed
	// cache damage (C20)
	Damage      []CacheDamage `json:"damage,omitempty"`
	AllPrefixes bool          `json:"all_prefixes,omitempty"`
}

// BadMove inserts a token that is not a legal move after ply At of game Game.
type BadMove struct {
	Game  int    `json:"game"`
	At    int    `json:"at"`
	Token string `json:"token"`
}

// CacheDamage is one way of damaging a cache file.
type CacheDamage struct {
	Kind string `json:"kind"` // truncate|flip|garbage|empty|missing|dir|stale|append
	At   int    `json:"at,omitempty"`
	Bit  int    `json:"bit,omitempty"`
	Len  int    `json:"len,omitempty"`
	Seed uint64 `json:"seed,omitempty"`
}

// TTSpec is a transposition table operation history (C11).
type TTSpec struct {
	SizeMB int    `json:"size_mb"`
	Ops    []TTOp `json:"ops"`
}

// TTOp is one store operation.
type TTOp struct {
	Op    string `json:"op"` // put|probe|get|age|clear|resize|len|hashfull
	Key   uint64 `json:"key,omitempty"`
	Move  uint32 `json:"move,omitempty"`
	Depth int8   `json:"depth,omitempty"`
	Value int16  `json:"value,omitempty"`
	Type  uint8  `json:"type,omitempty"`
	Size  int    `json:"size,omitempty"`
	Actor int    `json:"actor,omitempty"`
}

// LoadScenario reads a scenario file.
func LoadScenario(path string) (*Scenario, error) {
	b, err := os.ReadFile(path)
	if err != nil {
		return nil, err
	}
	var sc Scenario
	if err := json.Unmarshal(b, &sc); err != nil {
		return nil, err
	}
	return &sc, nil
}

// Save writes the scenario as indented JSON.
func (sc *Scenario) Save(path string) error {
	b, err := json.MarshalIndent(sc, "", " ")
	if err != nil {
		return err
	}
	return os.WriteFile(path, append(b, '\n'), 0o644)
}

// Clone deep-copies via JSON.
func (sc *Scenario) Clone() *Scenario {
	b, _ := json.Marshal(sc)
	var c Scenario
	_ = json.Unmarshal(b, &c)
	return &c
}

// Violation is one oracle failure.
type Violation struct {
	Prop   string `json:"prop"`
	Class  string `json:"class"`  // stable identifier used for dedup / known findings / minimisation
	Detail string `json:"detail"` // human readable
}

// RunResult is what a worker reports for one scenario.
type RunResult struct {
	Seed       uint64           `json:"seed"`
	Prop       string           `json:"prop"`
	Kind       string           `json:"kind"`
	Violations []Violation      `json:"violations,omitempty"`
	Harness    string           `json:"harness_error,omitempty"` // harness-side trouble (exit 2 material)
	TraceHash  string           `json:"trace_hash"`
	Signature  string           `json:"signature"` // interleaving signature (evidence)
	NonTrivial bool             `json:"nontrivial"`
	SimNs      int64            `json:"sim_ns"`
	Yields     int64            `json:"yields"`
	Faults     map[string]int   `json:"faults,omitempty"`
	Probes     map[string]int   `json:"probes,omitempty"`
	Counters   map[string]int64 `json:"counters,omitempty"`
	WallMs     int64            `json:"wall_ms"`
	ExitAfter  bool             `json:"exit_after,omitempty"`
	Scenario   *Scenario        `json:"scenario,omitempty"` // included for violations and samples
	Sample     json.RawMessage  `json:"sample,omitempty"`
}

func (r *RunResult) addViolation(prop, class, detail string) {
	for _, v := range r.Violations {
		if v.Prop == prop && v.Class == class {
			return
		}
	}
	r.Violations = append(r.Violations, Violation{Prop: prop, Class: class, Detail: detail})
}

func (r *RunResult) fault(name string) {
	if r.Faults == nil {
		r.Faults = map[string]int{}
	}
	r.Faults[name]++
}

func (r *RunResult) probe(name string) {
	if r.Probes == nil {
		r.Probes = map[string]int{}
	}
	r.Probes[name]++
}

func (r *RunResult) count(name string, n int64) {
	if r.Counters == nil {
		r.Counters = map[string]int64{}
	}
	r.Counters[name] += n
}

package verifsim

import (
	"fmt"
	"strings"

	"github.com/frankkopp/FrankyGo/internal/movegen"
	"github.com/frankkopp/FrankyGo/internal/position"
	"github.com/frankkopp/FrankyGo/internal/types"

	"github.com/frankkopp/FrankyGo/verifsim/rules"
)

// fenPayload extracts the fen string of a "position fen ..." line the way a
// tokenizing reader sees it (everything up to "moves").
func fenPayload(line string) (string, bool) {
	tok := strings.Fields(line)
	if len(tok) < 3 || tok[0] != "position" || tok[1] != "fen" {
		return "", false
	}
	j := 2
	for j < len(tok) && tok[j] != "moves" {
		j++
	}
	return strings.Join(tok[2:j], " "), true
}

// checkFenString gives one string to the engine's FEN parser: it must return
// an error or a position whose FEN output parses back to the same FEN.
// mustRoundTrip: the string is a complete FEN of a legal position and has to
// come back unchanged.
func checkFenString(s string, mustRoundTrip bool, res *RunResult) {
	defer func() {
		if r := recover(); r != nil {
			res.addViolation("C16", "fen_parser_panic", fmt.Sprintf("NewPositionFen(%q) panicked: %v", clip(s, 200), r))
		}
	}()
	res.count("fen_strings_parsed", 1)
	p, err := position.NewPositionFen(s)
	if err != nil {
		if mustRoundTrip {
			res.addViolation("C16", "fen_valid_rejected", fmt.Sprintf("legal position %q rejected: %v", s, err))
		}
		res.count("fen_rejected", 1)
		return
	}
	if p == nil {
		res.addViolation("C16", "fen_nil_without_error", fmt.Sprintf("NewPositionFen(%q) returned nil without error", clip(s, 200)))
		return
	}
	f1 := p.StringFen()
	if mustRoundTrip && f1 != s {
		res.addViolation("C16", "fen_roundtrip_inexact", fmt.Sprintf("legal position %q came back as %q", s, f1))
	}
	p2, err2 := position.NewPositionFen(f1)
	if err2 != nil || p2 == nil {
		res.addViolation("C16", "fen_output_unparsable", fmt.Sprintf("%q accepted, but its output %q is rejected: %v", clip(s, 200), f1, err2))
		return
	}
	if f2 := p2.StringFen(); f2 != f1 {
		res.addViolation("C16", "fen_roundtrip_unstable", fmt.Sprintf("%q -> %q -> %q", clip(s, 200), f1, f2))
	}
	if p2.ZobristKey() != p.ZobristKey() {
		// the reparsed position must be the same position
		res.addViolation("C16", "fen_roundtrip_changes_key", fmt.Sprintf("%q is accepted and prints %q; parsed back that is a position with another hash key", clip(s, 200), f1))
	}
	res.count("fen_accepted", 1)
	// a well-formed position answers the basic board queries (attack and
	// check tests) - asked only with one king per side on the board, which is
	// what the protocol handler requires before it uses a position
	if p.PiecesBb(types.White, types.King).PopCount() == 1 && p.PiecesBb(types.Black, types.King).PopCount() == 1 {
		func() {
			defer func() {
				if r := recover(); r != nil {
					res.addViolation("C16", "fen_accepted_position_unusable", fmt.Sprintf("%q is accepted, but the check/attack test on the position panics: %v", clip(s, 200), r))
				}
			}()
			_ = p.HasCheck()
			for _, c := range []types.Color{types.White, types.Black} {
				_ = p.IsAttacked(p.KingSquare(c), c.Flip())
			}
			res.count("fen_accepted_queried", 1)
			// generating the legal moves (which makes and takes back moves)
			// leaves a well-formed position as it was: same FEN, and the
			// occupancy boards still agree with the piece boards
			before := p.StringFen()
			mg := movegen.NewMoveGen()
			_ = mg.GenerateLegalMoves(p, movegen.GenAll)
			var all types.Bitboard
			for _, c := range []types.Color{types.White, types.Black} {
				var side types.Bitboard
				for pt := types.King; pt <= types.Queen; pt++ {
					side |= p.PiecesBb(c, pt)
				}
				if side != p.OccupiedBb(c) {
					res.addViolation("C16", "fen_accepted_position_inconsistent", fmt.Sprintf("%q is accepted; after generating its legal moves the occupancy board of one side differs from its piece boards", clip(s, 200)))
				}
				all |= side
			}
			if all != p.OccupiedAll() {
				res.addViolation("C16", "fen_accepted_position_inconsistent", fmt.Sprintf("%q is accepted; after generating its legal moves the occupancy board differs from the piece boards", clip(s, 200)))
			}
			if after := p.StringFen(); after != before {
				res.addViolation("C16", "fen_accepted_position_inconsistent", fmt.Sprintf("%q is accepted; generating its legal moves changes the position from %q to %q", clip(s, 200), before, after))
			}
		}()
	}
}

// CheckFenHalf runs the FEN half of C16 for one scenario: every fen payload
// of the session plus a seeded batch of damaged and legal FENs.
func CheckFenHalf(sc *Scenario, res *RunResult) {
	for _, st := range sc.Steps {
		if f, ok := fenPayload(st.Line); ok {
			full := false
			if st.Op == "send" {
				if p, err := rules.ParseFen(f); err == nil && p.Sane() && p.Fen() == f {
					full = true
				}
			}
			checkFenString(f, full, res)
		}
	}
	rng := NewPRNG(sc.Seed, "fenhalf")
	for i := 0; i < 40; i++ {
		base := Corpus[rng.Intn(len(Corpus))]
		p := rules.MustFen(base)
		ms := Playout(p, rng.Intn(30), rng)
		legal := p.Fen()
		checkFenString(legal, p.Sane(), res)
		if p.Sane() && rules.MustFen(base).Sane() {
			checkFenOfPlayedPosition(base, ms, legal, res)
		}
		d, _ := DamageFen(legal, rng)
		checkFenString(d, false, res)
		if rng.Chance(0.3) {
			d2, _ := DamageFen(d, rng)
			checkFenString(d2, false, res)
		}
	}
}

// checkFenOfPlayedPosition: a position reached by playing moves in the engine
// and the position parsed from its FEN output are the same position - same
// FEN and same hash key (the key is what repetition detection, the
// transposition table and the book identify a position by).
func checkFenOfPlayedPosition(base string, ms []string, want string, res *RunResult) {
	defer func() {
		if r := recover(); r != nil {
			res.addViolation("C16", "fen_parser_panic", fmt.Sprintf("playing %v from %q panicked: %v", ms, base, r))
		}
	}()
	pm, err := position.NewPositionFen(base)
	if err != nil || pm == nil {
		return
	}
	mg := movegen.NewMoveGen()
	for _, m := range ms {
		mv := mg.GetMoveFromUci(pm, m)
		if !mv.IsValid() {
			return // decided elsewhere (move legality is not this property)
		}
		pm.DoMove(mv)
	}
	f := pm.StringFen()
	if f != want {
		return // decided elsewhere (C02 / position oracle)
	}
	pf, err := position.NewPositionFen(f)
	if err != nil || pf == nil {
		res.addViolation("C16", "fen_output_unparsable", fmt.Sprintf("position after %v from %q prints %q which is rejected: %v", ms, base, f, err))
		return
	}
	res.count("fen_played_vs_parsed", 1)
	if pf.ZobristKey() != pm.ZobristKey() {
		res.addViolation("C16", "fen_roundtrip_changes_key", fmt.Sprintf("the position reached by %v from %q prints %q; parsed back it is a position with another hash key (%d vs %d)", ms, base, f, uint64(pf.ZobristKey()), uint64(pm.ZobristKey())))
	}
}

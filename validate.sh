#!/bin/bash
# validates MANIFEST.json and all evidence files against the schemas
python3-vt - <<'PY'
import json, jsonschema, glob, sys
ok=True
m=json.load(open("/verif/MANIFEST.json"))
jsonschema.validate(m,json.load(open("/root/.vp/MANIFEST.schema.json")))
es=json.load(open("/root/.vp/EVIDENCE.schema.json"))
for f in sorted(glob.glob("/verif/evidence/*.json")):
    try:
        jsonschema.validate(json.load(open(f)),es); print("ok",f)
    except Exception as ex:
        ok=False; print("INVALID",f,str(ex)[:300])
props=[json.loads(l)["id"] for l in open("/verif/properties.jsonl")]
claimed=[c["property_id"] for c in m["checks"]]; na=[n["property_id"] for n in m.get("not_applicable",[])]
for p in props:
    if (p in claimed)==(p in na): ok=False; print("property",p,"must be exactly one of claimed/not_applicable")
sys.exit(0 if ok else 1)
PY
